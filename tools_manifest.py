#!/venv/bin/python
"""Regenerates MANIFEST.json from the per-property table below (single source of truth for the registered commands)."""
import json
import os

BASE = "cd /repo && /venv/bin/python -m pytest -ra -q -p no:cacheprovider --timeout=900 --continue-on-collection-errors"
CHECKS = {}
NA = {}


def check(pid, category, text, note, technique, design_ref):
    CHECKS[pid] = {
        "property_id": pid,
        "quick_cmd": "./check %s --tier quick" % pid,
        "thorough_cmd": "./check %s --tier thorough" % pid,
        "evidence_file": "/verif/evidence/%s.json" % pid,
        "replay_cmd_template": "./check %s --replay {path}" % pid,
        "engine": "tlc-closed-loop",
        "level_claimed": {"category": category, "text": text, "design_ref": design_ref},
        "level_note": note,
        "technique": technique,
    }


exec(open(os.path.join(os.path.dirname(os.path.abspath(__file__)), "manifest_table.py")).read())

ALL = ["C%02d" % i for i in range(1, 21)]
man = {
    "version": 1,
    "setup_cmd": "./check --setup",
    "hooks": {
        "guard": "ARTAP_VERIF",
        "enable": "no in-repo hooks are needed: observers attach from the harness side to the public API "
                  "(user Problem.evaluate, data_store, sqlite3.connect proxy, scripted random); the guard name is reserved",
        "baseline_off_cmd": BASE,
        "source_commits": [],
        "add_only": True,
    },
    "engines": [{
        "name": "tlc-closed-loop", "path": "/verif/harness",
        "serves_properties": sorted(CHECKS),
        "kind_free_text": "explicit TLA+ specifications (/verif/spec) model-checked with TLC; TLC-generated cases are replayed "
                          "into the real artap code and every recorded trace is validated by TLC against the same operators"}],
    "checks": [CHECKS[p] for p in ALL if p in CHECKS],
    "not_applicable": [{"property_id": p, "reason": NA.get(p, "check under construction in this round (see DESIGN.md section 5)")}
                       for p in ALL if p not in CHECKS],
    "notes": "exit 0 = held on everything explored (KNOWN-FINDING lines for listed findings), exit 1 + VIOLATION line = "
             "violation, exit 2 = machinery failure. Known findings: /verif/known_findings.json.",
}
with open(os.path.join(os.path.dirname(os.path.abspath(__file__)), "MANIFEST.json"), "w") as f:
    json.dump(man, f, indent=1)
print("MANIFEST.json:", len(man["checks"]), "checks,", len(man["not_applicable"]), "not applicable")
