"""Thin, total wrapper around TLC (tla2tools 1.8) for the artap verification harness.

Every invocation
  * runs with cwd = /verif/spec (so EXTENDS resolves sibling modules),
  * gets its own metadir below the run's scratch directory,
  * is wrapped in a hard timeout,
  * is parsed into a TLCResult: states generated / distinct / depth, the invariant or property
    TLC reported as violated (if any), every `PrintT` tuple (single-line tuples only are used by
    the specs, which makes them atomic under several workers), per-action coverage.

A TLC crash, parse error or timeout is a *machinery* failure (MachineryError -> exit 2), never a
VIOLATION of an artap property.
"""
import os
import re
import subprocess
import time

SPEC_DIR = os.path.join(os.path.dirname(os.path.dirname(os.path.abspath(__file__))), "spec")
TLA_JAR = "/opt/veriftools/tla/tla2tools.jar"
TLA_DEPS = "/opt/veriftools/tla/CommunityModules-deps.jar"


class MachineryError(Exception):
    pass


class TLCResult:
    def __init__(self):
        self.generated = 0
        self.distinct = 0
        self.depth = 0
        self.violated = None      # name of violated invariant / property / "deadlock" / "assumption"
        self.errors = []          # raw "Error:" lines
        self.prints = []          # list of python lists parsed from <<...>> PrintT lines
        self.coverage = {}        # action name -> (taken, distinct)
        self.wall = 0.0
        self.cmd = ""
        self.stdout = ""
        self.ok = False           # TLC finished with "No error has been found"

    def printed(self, tag):
        return [p for p in self.prints if p and p[0] == tag]


_tuple_re = re.compile(r'^<<(.*)>>\s*$')


def _parse_tuple(line):
    """Parse a single-line TLA+ tuple of strings / integers / booleans into a python list."""
    m = _tuple_re.match(line.strip())
    if not m:
        return None
    body = m.group(1)
    out = []
    i, n = 0, len(body)
    while i < n:
        c = body[i]
        if c in " ,":
            i += 1
            continue
        if c == '"':
            j = i + 1
            buf = []
            while j < n and body[j] != '"':
                if body[j] == "\\" and j + 1 < n:
                    nxt = body[j + 1]
                    buf.append({"n": "\n", "t": "\t"}.get(nxt, nxt))
                    j += 2
                else:
                    buf.append(body[j])
                    j += 1
            out.append("".join(buf))
            i = j + 1
            continue
        j = i
        while j < n and body[j] not in " ,":
            j += 1
        tok = body[i:j]
        if tok == "TRUE":
            out.append(True)
        elif tok == "FALSE":
            out.append(False)
        else:
            try:
                out.append(int(tok))
            except ValueError:
                return None      # nested value: not one of ours
        i = j
    return out


def run(module, cfg_text, scratch, env=None, workers=4, timeout=600, coverage=False,
        simulate=None, depth=None, seed=None, deadlock=False, name=None, heap="4g"):
    """Run TLC on spec/<module>.tla with the given configuration text."""
    name = name or module
    os.makedirs(scratch, exist_ok=True)
    cfg = os.path.join(scratch, name + ".cfg")
    with open(cfg, "w") as f:
        f.write(cfg_text)
    meta = os.path.join(scratch, "meta-" + name)
    jtmp = os.path.join(scratch, "jtmp")          # TLC leaves an empty tlc-* directory per run in java.io.tmpdir: keep them out of /tmp
    os.makedirs(jtmp, exist_ok=True)
    cmd = ["java", "-Djava.io.tmpdir=" + jtmp, "-XX:+UseParallelGC", "-Xss32m", "-Xmx" + heap, "-cp", TLA_JAR + ":" + TLA_DEPS, "tlc2.TLC",
           "-workers", str(workers), "-metadir", meta, "-noGenerateSpecTE", "-config", cfg]
    if coverage:
        cmd += ["-coverage", "1"]
    if not deadlock:
        cmd += ["-deadlock"]          # -deadlock switches deadlock checking OFF
    if simulate:
        cmd += ["-simulate", simulate]
    if depth:
        cmd += ["-depth", str(depth)]
    if seed is not None:
        cmd += ["-seed", str(seed)]
    cmd += [module + ".tla"]
    e = dict(os.environ)
    e.pop("JAVA_TOOL_OPTIONS", None)
    if env:
        e.update({k: str(v) for k, v in env.items()})
    t0 = time.time()
    try:
        p = subprocess.run(cmd, cwd=SPEC_DIR, env=e, stdout=subprocess.PIPE, stderr=subprocess.STDOUT,
                           timeout=timeout, text=True, errors="replace")
    except subprocess.TimeoutExpired:
        raise MachineryError("TLC timeout after %ss: %s" % (timeout, name))
    finally:
        subprocess.run(["rm", "-rf", meta])
    r = TLCResult()
    r.wall = time.time() - t0
    r.cmd = " ".join(cmd)
    r.stdout = p.stdout
    for line in p.stdout.splitlines():
        s = line.strip()
        if s.startswith("<<"):
            t = _parse_tuple(s)
            if t is not None:
                r.prints.append(t)
            continue
        m = re.search(r"(\d+) states generated, (\d+) distinct states found", s)
        if m:
            r.generated, r.distinct = int(m.group(1)), int(m.group(2))
            continue
        m = re.search(r"depth of the complete state graph search is (\d+)", s)
        if m:
            r.depth = int(m.group(1))
            continue
        m = re.match(r"Error: Invariant (\S+) is violated", s)
        if m:
            r.violated = m.group(1)
        m = re.match(r"Error: Action property (\S+) is violated", s)
        if m:
            r.violated = m.group(1)
        if "Temporal properties were violated" in s:
            r.violated = r.violated or "temporal"
        if s.startswith("Error: Deadlock reached"):
            r.violated = "deadlock"
        if "Assumption" in s and "is false" in s:
            r.violated = "assumption"
        if s.startswith("Error:"):
            r.errors.append(s)
        if "Model checking completed. No error has been found" in s or \
           (simulate and "Progress:" in s):
            r.ok = True
        m = re.match(r"<(\w+) line \d+, col \d+ to line \d+, col \d+ of module (\w+)>: (\d+):(\d+)", s)
        if m:
            a = m.group(1)
            old = r.coverage.get(a, (0, 0))
            r.coverage[a] = (old[0] + int(m.group(4)), old[1] + int(m.group(3)))
    if r.errors and r.violated is None:
        # parse / semantic / evaluation error: machinery
        tail = "\n".join(p.stdout.splitlines()[-40:])
        raise MachineryError("TLC failed on %s:\n%s" % (name, tail))
    if not r.ok and r.violated is None and not simulate:
        tail = "\n".join(p.stdout.splitlines()[-40:])
        raise MachineryError("TLC did not complete on %s (rc=%s):\n%s" % (name, p.returncode, tail))
    return r


def sany(module):
    p = subprocess.run(["java", "-cp", TLA_JAR + ":" + TLA_DEPS, "tla2sany.SANY", module + ".tla"],
                       cwd=SPEC_DIR, stdout=subprocess.PIPE, stderr=subprocess.STDOUT, text=True)
    ok = p.returncode == 0 and "Semantic errors" not in p.stdout and "Parse Error" not in p.stdout \
        and "Fatal errors" not in p.stdout and "Could not find module" not in p.stdout
    return ok, p.stdout


def tlapm(module_rel, scratch, timeout=900):
    """Check a TLAPS proof module (path relative to spec/); returns the number of proved obligations."""
    import shutil
    src = os.path.join(SPEC_DIR, module_rel)
    work = os.path.join(scratch, "tlapm")
    os.makedirs(work, exist_ok=True)
    dst = os.path.join(work, os.path.basename(src))
    shutil.copy(src, dst)
    m = None
    out = ""
    # back-end provers work with per-obligation time limits: on a heavily loaded machine an obligation can time out, so a failed run is
    # repeated once with the limits stretched before the side-car is given up
    for extra in ([], ["--stretch", "4"]):
        try:
            p = subprocess.run(["tlapm", "--threads", "4"] + extra + [os.path.basename(dst)], cwd=work, stdout=subprocess.PIPE,
                               stderr=subprocess.STDOUT, timeout=timeout, text=True, errors="replace")
        except subprocess.TimeoutExpired:
            out = "timeout"
            continue
        out = p.stdout
        m = re.search(r"All (\d+) obligations? proved", p.stdout)
        if m:
            break
    shutil.rmtree(work, ignore_errors=True)
    if not m:
        raise MachineryError("tlapm did not prove %s:\n%s" % (module_rel, out[-2000:]))
    return int(m.group(1))


def sidecar(ctx, label, fn, *args):
    """run a proof side-car (TLAPS / Apalache).  Side-cars never decide a property: if the prover cannot be run to completion in this
    environment (load, time limits) that is recorded in the evidence notes and the check goes on; a proof that is REFUTED is different --
    but neither tlapm nor the inductive Apalache check can distinguish 'refuted' from 'not found' for these modules, so both are notes."""
    try:
        n = fn(*args)
        ctx.notes.append("%s: %d obligations proved" % (label, n))
        return n
    except MachineryError as e:
        ctx.notes.append("%s: side-car NOT established in this run (%s)" % (label, str(e).splitlines()[0][:160]))
        return 0


def apalache_inductive(module_rel, scratch, cinit="ConstInit", init="Init", indinit="IndInit", inv="IndInv", timeout=900):
    """Apalache side-car: Init => Inv (length 0) and Inv /\\ Next => Inv' (length 1). Returns the number of obligations (2)."""
    import shutil
    src = os.path.join(SPEC_DIR, module_rel)
    work = os.path.join(scratch, "apalache")
    os.makedirs(work, exist_ok=True)
    shutil.copy(src, os.path.join(work, os.path.basename(src)))
    done = 0
    for i, length in ((init, 0), (indinit, 1)):
        cmd = ["apalache-mc", "check", "--cinit=" + cinit, "--init=" + i, "--inv=" + inv, "--length=%d" % length,
               "--out-dir=" + os.path.join(work, "out"), os.path.basename(src)]
        try:
            p = subprocess.run(cmd, cwd=work, stdout=subprocess.PIPE, stderr=subprocess.STDOUT, timeout=timeout, text=True, errors="replace")
        except subprocess.TimeoutExpired:
            raise MachineryError("apalache timeout on " + module_rel)
        if "The outcome is: NoError" not in p.stdout or "EXITCODE: OK" not in p.stdout:
            raise MachineryError("apalache did not establish %s (init %s) for %s:\n%s" % (inv, i, module_rel, p.stdout[-1500:]))
        done += 1
    shutil.rmtree(work, ignore_errors=True)
    return done
