"""Engine shared by all property drivers.

A property check is a list of *parts*.  Each part binds one TLA+ module to the implementation:

    mc()          exhaustive TLC run of the design model (bounded constants)      -> states / transitions
    cases()       TLC-generated abstract cases (oracle tables / behaviours), concretised with the run's seed,
                  plus seeded random cases that go beyond the model's constants
    run_case(c)   executes the REAL artap code on the case and returns the observed event trace (projected to
                  integers / enums / small rationals)
    trace module  TLC validates every recorded trace against the SAME operators the design model uses and
                  evaluates every clause after every event; it prints ACCEPT <tid> or FAIL <tid> <event> <clause>

So TLC both chooses what is run (spec -> code) and judges what was observed (code -> spec).
Verdicts are total: every trace is either accepted or rejected with a named clause; anything else is a
machinery failure (exit 2), never a VIOLATION.
"""
import contextlib
import fnmatch
import hashlib
import io
import json
import math
import os
import random
import shutil
import sys
import threading
import time
import traceback
from concurrent.futures import ThreadPoolExecutor

from . import tlc
from .tlc import MachineryError

VERIF = os.path.dirname(os.path.dirname(os.path.abspath(__file__)))
REPO = os.environ.get("VERIF_REPO", "/repo")


class Skip(Exception):
    """The case cannot be projected precisely (e.g. rounding created a tie); counted, never reported."""


class Ctx:
    def __init__(self, pid, tier, seed):
        self.pid = pid
        self.tier = tier
        self.quick = tier == "quick"
        self.seed = seed
        self.rng = random.Random(seed * 1000003 + sum(map(ord, pid)))
        self.scratch = os.path.join(VERIF, "out", "run-%s-%d" % (pid, os.getpid()))
        os.makedirs(self.scratch, exist_ok=True)
        self.t0 = time.time()
        self.real_stdout = sys.stdout
        self.notes = []

    def say(self, *a):
        print(*a, file=self.real_stdout, flush=True)

    def cleanup(self):
        shutil.rmtree(self.scratch, ignore_errors=True)
        # scratch directories of runs that were killed from outside (never of a run that may still be alive: older than six hours)
        try:
            parent = os.path.dirname(self.scratch)
            for d in os.listdir(parent):
                q = os.path.join(parent, d)
                if d.startswith("run-") and os.path.isdir(q) and time.time() - os.path.getmtime(q) > 6 * 3600:
                    shutil.rmtree(q, ignore_errors=True)
        except OSError:
            pass

    def sub_rng(self, tag):
        return random.Random("%s/%s/%s" % (self.seed, self.pid, tag))


class Part:
    """Base class of one spec<->code binding.  Subclasses override what they need."""
    name = "part"
    case_timeout = 300           # seconds one case may spend inside the implementation before it is reported as non-terminating
    trace_module = None          # TLA+ module validating the traces of this part
    trace_env = {}               # extra environment for the trace module (constants passed through IOEnv)
    trace_workers = 2
    trace_shards = 4

    def mc(self, ctx):
        """Return a list of tlc.TLCResult (exhaustive model checking of the design)."""
        return []

    def cases(self, ctx):
        return []

    def run_case(self, ctx, case):
        raise NotImplementedError

    def nontrivial(self, case, trace):
        """Does this case exercise the property's antecedent?  (evidence: distinct_nontrivial)"""
        return True

    def key(self, case, trace, fail):
        """Stable identifier of a failing case for the known-findings file."""
        return "%s:%s" % (self.name, fail.get("clause", "?"))

    def sample(self, case, trace):
        return {"case": case, "trace": trace[:6]}


def quiet():
    """Silence artap's chatter (prints in Job, logging handlers, joblib) while a driver runs."""
    import logging
    logging.disable(logging.CRITICAL)
    return contextlib.redirect_stdout(io.StringIO())


def observe(fn, *a, **kw):
    """Call implementation code; an exception is an observation, not a harness error."""
    try:
        return ("ok", fn(*a, **kw))
    except Exception as e:      # noqa
        return ("exc", type(e).__name__ + ": " + str(e)[:120])


# ----------------------------------------------------------------------------------------------
# batched trace validation
# ----------------------------------------------------------------------------------------------
TRACE_CFG = "INIT TInit\nNEXT TNext\nINVARIANT TReport\nCHECK_DEADLOCK FALSE\n"


def validate(ctx, module, traces, env=None, shards=4, workers=2, timeout=900, tag="", cfg=None, allclauses=False):
    """Validate `traces` (list of event lists) with spec/<module>.tla.

    Returns a list, one entry per trace: None if accepted, else {"event": l, "clause": name}.
    Every trace must receive a verdict, otherwise MachineryError.
    """
    n = len(traces)
    if n == 0:
        return [], []
    shards = max(1, min(shards, (n + 199) // 200))
    bounds = [(i * n // shards, (i + 1) * n // shards) for i in range(shards)]
    results = [None] * n
    tlc_runs = []

    def one(si):
        lo, hi = bounds[si]
        path = os.path.join(ctx.scratch, "traces-%s%s-%d.json" % (module, tag, si))
        with open(path, "w") as f:
            json.dump(traces[lo:hi], f)
        e = {"TRACE_FILE": path, "ALLCLAUSES": "1" if allclauses else "0"}
        e.update(env or {})
        r = tlc.run(module, cfg or TRACE_CFG, ctx.scratch, env=e, workers=workers, timeout=timeout,
                    name="%s%s-%d" % (module, tag, si))
        os.remove(path)
        return si, r

    with ThreadPoolExecutor(max_workers=shards) as ex:
        for si, r in ex.map(one, range(shards)):
            lo, hi = bounds[si]
            tlc_runs.append(r)
            if r.violated:
                raise MachineryError("trace spec %s reported %s (trace specs only print verdicts)\n%s"
                                     % (module, r.violated, r.stdout[-2000:]))
            acc = {p[1] for p in r.printed("ACCEPT")}
            fails = {}
            allf = {}
            for p in r.printed("FAIL"):
                # <<"FAIL", tid, l, clause>>
                t = p[1]
                allf.setdefault(t, set()).add(p[3])
                if t not in fails or p[2] < fails[t]["event"]:
                    fails[t] = {"event": p[2], "clause": p[3]}
            if allclauses:
                for t, f in fails.items():
                    f["clauses"] = sorted(allf[t])
                acc = set()          # in diagnostic mode evaluation continues after a failing clause: ACCEPT lines mean nothing
            for k in range(hi - lo):
                t = k + 1
                if t in acc and t not in fails:
                    results[lo + k] = None
                elif t in fails and t not in acc:
                    results[lo + k] = fails[t]
                elif t in acc and t in fails:
                    # some nondeterministic branch failed but another one reached the end: accepted
                    results[lo + k] = None
                elif allclauses:
                    results[lo + k] = None
                else:
                    results[lo + k] = {"event": -1, "clause": "no-matching-action"}
    return results, tlc_runs


# ----------------------------------------------------------------------------------------------
# trace mutation (self-test of the trace specifications: VERIF_TRACEMUT=1 ./check <id>)
# ----------------------------------------------------------------------------------------------
def _paths(x, prefix=()):
    """all leaf / list positions of a JSON value"""
    out = []
    if isinstance(x, dict):
        for k, v in x.items():
            if k in ("ev", "exc", "why", "what"):
                continue
            out.extend(_paths(v, prefix + (k,)))
    elif isinstance(x, list):
        if x:
            out.append(prefix + ("#list",))
        for i, v in enumerate(x):
            out.extend(_paths(v, prefix + (i,)))
    else:
        out.append(prefix)
    return out


def _mutate(trace, rng):
    """one random single-field corruption of an accepted trace; returns (mutated trace, description) or None"""
    import copy
    t = copy.deepcopy(trace)
    li = rng.randrange(len(t))
    paths = _paths(t[li])
    if not paths:
        return None
    path = rng.choice(paths)
    node = t[li]
    for k in path[:-1]:
        node = node[k]
    last = path[-1]
    if last == "#list":
        how = rng.choice(["drop", "dup", "swap"])
        if how == "drop":
            node.pop(rng.randrange(len(node)))
        elif how == "dup":
            node.append(copy.deepcopy(rng.choice(node)))
        elif len(node) >= 2:
            i, j = rng.sample(range(len(node)), 2)
            if node[i] == node[j]:
                return None
            node[i], node[j] = node[j], node[i]
        else:
            return None
        desc = "%s:%s" % (how, ".".join(map(str, path[:-1])))
    else:
        v = node[last]
        if isinstance(v, bool):
            node[last] = not v
        elif isinstance(v, int):
            node[last] = v + rng.choice([-1, 1, 2])
        elif isinstance(v, str):
            node[last] = v + "x"
        else:
            return None
        desc = "set:%s" % ".".join(map(str, path))
    return t, "%s@%s" % (desc, t[li].get("ev", "?"))


def trace_mutation(ctx, part, accepted, per_trace=2, sample=100):
    """corrupt single recorded fields of accepted traces and record which clause of the trace specification rejects each corruption"""
    rng = random.Random(ctx.seed * 7919 + 13)
    pool = accepted if len(accepted) <= sample else rng.sample(accepted, sample)
    muts, descs = [], []
    for tr in pool:
        for _ in range(per_trace):
            m = _mutate(tr, rng)
            if m:
                muts.append(m[0])
                descs.append(m[1])
    if not muts:
        return
    # one TLC run per corrupted trace (12 at a time): a corruption that breaks the shape of an event makes TLC stop with an evaluation
    # error (index out of range, field missing) -- that is a rejection too ("TLC-ERROR"), but it must not take other traces with it
    def one(k):
        try:
            v, _ = validate(ctx, part.trace_module, [muts[k]], env=part.trace_env, cfg=getattr(part, "trace_cfg", None),
                            shards=1, workers=1, tag="-mut-%s-%d" % (part.name, k), allclauses=True)
            return v[0]
        except MachineryError:
            return {"event": -2, "clause": "TLC-ERROR"}
    with ThreadPoolExecutor(max_workers=12) as ex:
        verdicts = list(ex.map(one, range(len(muts))))
    hist, accepted_desc, nrej = {}, {}, 0
    for v, d in zip(verdicts, descs):
        if v is None:
            key = d.split("@")[1] + ":" + d.split("@")[0].split(":")[1].split(".")[0]
            accepted_desc[key] = accepted_desc.get(key, 0) + 1
        else:
            nrej += 1
            for cl in v.get("clauses", [v["clause"]]):
                hist[cl] = hist.get(cl, 0) + 1
    out = os.path.join(VERIF, "out", "tracemut")
    os.makedirs(out, exist_ok=True)
    with open(os.path.join(out, "%s-%s.json" % (ctx.pid, part.name)), "w") as f:
        json.dump({"property": ctx.pid, "part": part.name, "module": part.trace_module, "mutations": len(muts),
                   "rejected": nrej, "rejected_by_clause": hist, "accepted_by_field": accepted_desc}, f, indent=1, sort_keys=True)
    ctx.say("tracemut %s/%s: %d corruptions, %d rejected by %d different clauses, %d accepted"
            % (ctx.pid, part.name, len(muts), nrej, len(hist), len(muts) - nrej))


# ----------------------------------------------------------------------------------------------
# known findings
# ----------------------------------------------------------------------------------------------
def load_known(pid):
    # listed properties: known_findings.json; extension checks (X..): extras_findings.json (observations outside the listed properties)
    path = os.path.join(VERIF, "extras_findings.json" if pid.startswith("X") else "known_findings.json")
    if not os.path.exists(path):
        return []
    with open(path) as f:
        data = json.load(f)
    return [k for k in data.get("findings", []) if k.get("property") == pid and k.get("status") == "known"]


def _report_hang(ctx, part, case, level, assumptions, level_rule):
    """called from a timer thread when one case exceeds part.case_timeout seconds inside the implementation"""
    v = {"part": part.name, "case": jsonable({k: x for k, x in case.items() if not k.startswith("_")}),
         "trace": [{"ev": "hang", "after_s": part.case_timeout}],
         "fail": {"event": 0, "clause": "implementation-does-not-terminate"}, "key": "%s:hang" % part.name}
    for k in load_known(ctx.pid):
        if fnmatch.fnmatchcase(v["key"], k["match"]):
            ctx.say("KNOWN-FINDING: property=%s %s [match=%s]" % (ctx.pid, k["what"], k["match"]))
            ctx.cleanup()
            os._exit(0)
    os.makedirs(os.path.join(VERIF, "out", "replays"), exist_ok=True)
    h = hashlib.sha1(json.dumps(v, sort_keys=True).encode()).hexdigest()[:12]
    path = os.path.join(VERIF, "out", "replays", "%s-%s.json" % (ctx.pid, h))
    with open(path, "w") as f:
        json.dump({"property": ctx.pid, "seed": ctx.seed, "tier": ctx.tier, **v}, f, indent=1)
    ctx.say("VIOLATION property=%s replay=%s" % (ctx.pid, path))
    ctx.say("  part=%s clause=%s event=0 key=%s (no return after %d s)" % (part.name, v["fail"]["clause"], v["key"], part.case_timeout))
    evdir = os.environ.get("VERIF_EVIDENCE_DIR") or os.path.join(VERIF, "evidence")
    os.makedirs(evdir, exist_ok=True)
    with open(os.path.join(evdir, ctx.pid + ".json"), "w") as f:
        json.dump({"property_id": ctx.pid, "tier": ctx.tier, "seed": ctx.seed, "level": level,
                   "coverage": {"rule": level_rule, "notes": ["run ended early: a call into the implementation did not return within %d s"
                                                              % part.case_timeout]},
                   "assumptions": assumptions, "wall_s": round(time.time() - ctx.t0, 2), "violations": 1}, f, indent=1)
    ctx.cleanup()
    os._exit(1)


# ----------------------------------------------------------------------------------------------
# the engine
# ----------------------------------------------------------------------------------------------
def jsonable(x):
    if isinstance(x, float):
        if math.isnan(x) or math.isinf(x):
            return repr(x)
        return x
    if isinstance(x, (list, tuple)):
        return [jsonable(v) for v in x]
    if isinstance(x, dict):
        return {str(k): jsonable(v) for k, v in x.items()}
    if isinstance(x, (str, int, bool)) or x is None:
        return x
    try:
        import numpy as np
        if isinstance(x, np.generic):
            return jsonable(x.item())
        if isinstance(x, np.ndarray):
            return jsonable(x.tolist())
    except Exception:
        pass
    return repr(x)


def run_property(ctx, parts, level, assumptions, level_rule, replay=None):
    """Run all parts; write evidence; print verdict lines; return exit code."""
    states = transitions = 0
    mc_runs = []
    n_cases = n_traces = n_events = n_skipped = 0
    nontrivial_keys = set()
    samples = []
    violations = []
    per_part = {}
    checker_cmds = []

    for part in parts:
        pt0 = time.time()
        info = {"cases": 0, "traces": 0, "events": 0, "skipped": 0, "mc": []}
        if replay is None:
            for r in part.mc(ctx):
                if r.violated:
                    raise MachineryError("design model of part %s violates %s -- the specification itself is "
                                         "inconsistent:\n%s" % (part.name, r.violated, r.stdout[-3000:]))
                states += r.distinct
                transitions += r.generated
                info["mc"].append({"cfg": r.cmd.split("-config ")[-1].split()[0].split("/")[-1],
                                   "generated": r.generated, "distinct": r.distinct, "depth": r.depth,
                                   "wall_s": round(r.wall, 1),
                                   "actions_covered": {a: c[0] for a, c in sorted(r.coverage.items())}})
                mc_runs.append(r)
                zero = [a for a, c in r.coverage.items() if c[0] == 0 and not a.startswith("T")]
                if zero and getattr(part, "coverage_strict", True):
                    raise MachineryError("vacuity: actions never taken in %s: %s" % (part.name, zero))
            cases = part.cases(ctx)
        else:
            cases = [replay["case"]] if replay.get("part") == part.name else []
        traces, kept, crashed = [], [], []
        with quiet():
            for c in cases:
                hang_timer = None
                if getattr(part, "case_timeout", None):
                    # a call into the implementation that never returns cannot be interrupted in-process: it is reported as what it is
                    # (the batch / run does not terminate) and the process ends.  The limit is far above any normal duration.
                    hang_timer = threading.Timer(part.case_timeout, _report_hang, args=(ctx, part, c, level, assumptions, level_rule))
                    hang_timer.daemon = True
                    hang_timer.start()
                try:
                    try:
                        tr = part.run_case(ctx, c)
                    finally:
                        if hang_timer is not None:
                            hang_timer.cancel()
                except Skip:
                    info["skipped"] += 1
                    continue
                except MachineryError:
                    raise
                except Exception as e:      # noqa
                    # an exception that escapes from artap code while a driver exercises it is an observation (the property's
                    # operations are total on the driver's inputs); one raised by harness code alone is a machinery failure
                    frames = traceback.extract_tb(e.__traceback__)
                    if not any(os.path.abspath(fr.filename).startswith(os.path.abspath(REPO) + os.sep) for fr in frames):
                        raise
                    where = [fr for fr in frames if os.path.abspath(fr.filename).startswith(os.path.abspath(REPO) + os.sep)][-1]
                    crashed.append({"part": part.name, "case": jsonable(c),
                                    "trace": [{"ev": "exception", "exc": "%s: %s" % (type(e).__name__, str(e)[:160]),
                                               "where": "%s:%s" % (os.path.relpath(where.filename, REPO), where.name)}],
                                    "fail": {"event": 0, "clause": "implementation-raised-" + type(e).__name__},
                                    "key": "%s:raised:%s:%s" % (part.name, type(e).__name__, where.name)})
                    continue
                traces.append(jsonable(tr))
                kept.append(c)
        info["cases"] = len(cases)
        if traces:
            verdicts, runs = validate(ctx, part.trace_module, traces, env=part.trace_env, cfg=getattr(part, "trace_cfg", None),
                                      shards=part.trace_shards, workers=part.trace_workers, tag="-" + part.name)
            checker_cmds.extend(r.cmd for r in runs[:1])
            for c, tr, v in zip(kept, traces, verdicts):
                info["traces"] += 1
                info["events"] += len(tr)
                if part.nontrivial(c, tr):
                    nontrivial_keys.add(hashlib.sha1(json.dumps([part.name, tr], sort_keys=True).encode()).hexdigest())
                if v is not None:
                    violations.append({"part": part.name, "case": jsonable(c), "trace": tr, "fail": v,
                                       "key": part.key(c, tr, v)})
            for c, tr in list(zip(kept, traces))[:2]:
                samples.append({"part": part.name, **jsonable(part.sample(c, tr))})
            if os.environ.get("VERIF_TRACEMUT"):
                trace_mutation(ctx, part, [t for t, v in zip(traces, verdicts) if v is None])
        violations.extend(crashed)
        info["raised"] = len(crashed)
        info["wall_s"] = round(time.time() - pt0, 1)
        per_part[part.name] = info
        n_cases += info["cases"]
        n_traces += info["traces"]
        n_events += info["events"]
        n_skipped += info["skipped"]

    # ---- verdicts -------------------------------------------------------------------------
    known = load_known(ctx.pid)
    reported, known_hit = [], {}
    for v in violations:
        hit = None
        for k in known:
            if fnmatch.fnmatchcase(v["key"], k["match"]):
                hit = k
                break
        if hit is not None:
            known_hit.setdefault(hit["match"], [hit, 0])[1] += 1
        else:
            reported.append(v)
    for m, (k, cnt) in sorted(known_hit.items()):
        ctx.say("KNOWN-FINDING: property=%s %s [match=%s, %d occurrence(s) in this run]" % (ctx.pid, k["what"], m, cnt))
    rc = 0
    seen_keys = set()
    os.makedirs(os.path.join(VERIF, "out", "replays"), exist_ok=True)
    for v in reported:
        if v["key"] in seen_keys:
            continue
        seen_keys.add(v["key"])
        h = hashlib.sha1(json.dumps(v, sort_keys=True).encode()).hexdigest()[:12]
        path = os.path.join(VERIF, "out", "replays", "%s-%s.json" % (ctx.pid, h))
        with open(path, "w") as f:
            json.dump({"property": ctx.pid, "seed": ctx.seed, "tier": ctx.tier, **v}, f, indent=1)
        ctx.say("VIOLATION property=%s replay=%s" % (ctx.pid, path))
        ctx.say("  part=%s clause=%s event=%s key=%s" % (v["part"], v["fail"]["clause"], v["fail"]["event"], v["key"]))
        rc = 1

    # ---- evidence -------------------------------------------------------------------------
    if replay is None:
        cov = {
            "states": states, "transitions": transitions,
            "traces_validated_against_impl": n_traces,
            "evaluations": n_cases,
            "distinct_nontrivial": len(nontrivial_keys),
            "rule": level_rule,
            "events_validated": n_events,
            "cases_skipped_imprecise": n_skipped,
            "samples": samples[:6],
            "parts": per_part,
            "checker_cmd": checker_cmds[0] if checker_cmds else "",
            "known_findings_matched": {m: c for m, (k, c) in known_hit.items()},
            "exhaustive": False,
            "notes": list(ctx.notes),
        }
        ev = {"property_id": ctx.pid, "tier": ctx.tier, "seed": ctx.seed, "level": level,
              "coverage": cov, "assumptions": assumptions, "wall_s": round(time.time() - ctx.t0, 2),
              "violations": len(seen_keys)}
        if len(nontrivial_keys) < 2 and rc == 0:
            raise MachineryError("vacuity: fewer than 2 distinct non-trivial cases for %s" % ctx.pid)
        evdir = os.environ.get("VERIF_EVIDENCE_DIR") or os.path.join(VERIF, "evidence")   # selftest writes elsewhere
        os.makedirs(evdir, exist_ok=True)
        with open(os.path.join(evdir, ctx.pid + ".json"), "w") as f:
            json.dump(ev, f, indent=1)
    ctx.say("%s %s: %d states, %d cases, %d traces / %d events validated, %d skipped, %d violation(s), %d known, %.1fs"
            % (ctx.pid, ctx.tier, states, n_cases, n_traces, n_events, n_skipped, len(seen_keys),
               sum(c for _, c in known_hit.values()), time.time() - ctx.t0))
    return rc
