"""Recording infrastructure for the Job family (C05, C06, C07, C09, C11): a real artap Problem whose user-supplied
objective, constraint function and data store are the observation points.  Everything is logged under one lock with
a sequence order (never wall-clock); designs are identified by object identity, vectors by exact tuple.
"""
import json
import math
import os
import sqlite3
import threading

from . import absx

class _SimulationTimeout(TimeoutError):
    """user-defined subclasses of the two transient types are transient too"""


class _SolverDiverged(RuntimeError):
    pass


TRANSIENT = {"timeout": TimeoutError, "runtime": RuntimeError, "timeout-sub": _SimulationTimeout, "runtime-sub": _SolverDiverged,
             "recursion": RecursionError, "notimplemented": NotImplementedError}       # the last two are RuntimeError subclasses
# "any other exception": also the relatives of TimeoutError in the OSError family, and other common failures of a simulation
FATAL = {"value": ValueError, "zero": ZeroDivisionError, "key": KeyError, "oserror": OSError, "filenotfound": FileNotFoundError,
         "permission": PermissionError, "connreset": ConnectionResetError, "type": TypeError, "assertion": AssertionError,
         "memory": MemoryError, "overflow": OverflowError, "exception": Exception}


def fp_costs(vector, m):
    """deterministic objective in fixed point: m integers |n| < 1e9 (units of 1e-9) whose last digit is never 0 or 5,
    so that rounding to any precision <= 8 decimals changes the value and never meets an exact half.  The function is a
    hash of the exact float vector: two different vectors (even 1 ulp apart) give unrelated costs, so 'these costs belong
    to that vector' is decidable by equality."""
    import hashlib
    import struct
    h = hashlib.sha1(struct.pack("<%dd" % len(vector), *[float(x) for x in vector])).digest()
    out = []
    for j in range(m):
        hj = hashlib.sha1(h + bytes([j])).digest()
        n = int.from_bytes(hj[:4], "little") % 1000000000
        n = n - n % 10 + (1, 2, 3, 4, 6, 7, 8, 9)[hj[4] % 8]
        if hj[5] % 3 == 0:
            n = -n
        out.append(n)
    return out


class Rec:
    def __init__(self, dim=2, m=1, bounds=None, criteria=None, constrained=False, script=None, gate=None,
                 precisions=None, db=None, mode="serial", workers=1):
        self.dim, self.m = dim, m
        self.bounds = bounds or [[-5.0, 5.0]] * dim
        self.criteria = criteria or ["minimize"] * m
        self.constrained = constrained
        self.vary_return = True
        self.cost_offset = 0.0       # objectives of large magnitude (1e9 + ...): only for checks that project costs to ranks
        self.cost_quant = 1          # stepped objectives: costs are multiples of cost_quant * 1e-9 (exact ties between different designs)
        self.handed_out = {}         # design -> the very object the objective returned last (must not be modified by the framework)
        self.script = script or (lambda k, attempt, callno: "ok")
        self.gate = gate
        self.lock = threading.RLock()
        self.events = []
        self.vkeys = {}
        self.design = {}           # id(individual) -> k
        self.inds = []
        self.calls = {}            # k -> number of objective calls
        self.attempt = {}          # k -> consecutive failures in the current Job.evaluate
        self.returned = {}         # k -> fixed-point costs returned by the last successful call
        self.callno = 0
        self.mode, self.workers = mode, workers
        self.db = db
        # a cost declared without 'criteria' (None here) is minimised by default
        costs = [dict({'name': 'f_%d' % (j + 1)}, **({'criteria': self.criteria[j]} if self.criteria[j] else {})) for j in range(m)]
        self.problem = absx.make_problem(dim, bounds=self.bounds, costs=costs, evaluate=self._evaluate,
                                         constraints=self._constraints)
        if db:
            from artap.datastore import SqliteDataStore
            real = SqliteDataStore(self.problem, database_name=db)
            self.problem.data_store = _StoreProxy(self, real)
        else:
            self.problem.data_store = _StoreProxy(self, None)

    # ---- identification ------------------------------------------------------------------------------
    def costs_of_ints(self, ints):
        q = self.cost_quant
        return [((n // q) * q) / 1e9 + self.cost_offset for n in ints]

    def vkey(self, vector):
        t = tuple(float(x) for x in vector)
        with self.lock:
            if t not in self.vkeys:
                self.vkeys[t] = len(self.vkeys) + 1
            return self.vkeys[t]

    def inbox(self, vector):
        return all(lb - 1e-12 <= x <= ub + 1e-12 for x, (lb, ub) in zip(vector, self.bounds))

    def g_of(self, vector):
        """integer constraint values: negative = satisfied"""
        n = fp_costs(vector, 2)
        return [(abs(n[0]) % 7) - 3, (abs(n[1]) % 5) - 3]

    def cf_of(self, ind):
        """key of the vector the stored costs were computed from (-1: none of the vectors seen)"""
        if ind.costs is None or len(ind.costs) == 0:
            return 0
        try:
            want = [float(c) for c in ind.costs]      # the WHOLE stored cost list must be what the objective returned (no extra entries)
        except (TypeError, ValueError):
            return -1                                 # an entry that is not a number (None, a nested list): these are not the objective's costs
        if self.costs_of_ints(fp_costs(ind.vector, self.m)) == want:
            return self.vkey(ind.vector)
        for t, k in list(self.vkeys.items()):
            if self.costs_of_ints(fp_costs(t, self.m)) == want:
                return k
        return -1

    # ---- the user-facing hooks -------------------------------------------------------------------------
    def _constraints(self, x):
        # Job.evaluate calls this user hook at the start of every attempt: a third observation / gate point ("begin")
        if self.gate is not None and getattr(self, "gate_begin", False):
            k = 0
            t = tuple(float(v) for v in x)
            for i, ind in enumerate(self.inds):
                if tuple(float(v) for v in ind.vector) == t:
                    k = i + 1
                    break
            if k:
                self.gate("begin", k)
        if not self.constrained:
            return []
        return [float(v) for v in self.g_of(x)]

    def _evaluate(self, individual):
        with self.lock:
            k = self.design.get(id(individual), 0)
            v = self.vkey(individual.vector)
            self.callno += 1
            callno = self.callno
            self.calls[k] = self.calls.get(k, 0) + 1
            att = self.attempt.get(k, 0)
            self.events.append({"ev": "call", "k": k, "v": v, "inbox": self.inbox(individual.vector)})
        if self.gate:
            self.gate("call", k)
        out = self.script(k, att, callno)
        with self.lock:
            if out == "ok":
                self.attempt[k] = 0
                self.returned[k] = fp_costs(individual.vector, self.m)
                self.events.append({"ev": "ret", "k": k, "out": "ok"})
                vals = self.costs_of_ints(self.returned[k])
                # the objective may hand its costs back as a list, a tuple or a float64 array (and keeps a reference to what it returned)
                shape = (k + callno) % 5 if self.vary_return else 0
                if shape == 3:
                    vals = tuple(vals)
                elif shape == 4:
                    import numpy as np
                    vals = np.array(vals, dtype=float)
                self.handed_out[k] = vals
                return vals
            if out in TRANSIENT:
                self.attempt[k] = 0 if att + 1 >= 5 else att + 1
                self.events.append({"ev": "ret", "k": k, "out": "transient"})
                exc = TRANSIENT[out]("scripted transient failure")
            else:
                self.attempt[k] = 0
                self.events.append({"ev": "ret", "k": k, "out": "fatal"})
                exc = FATAL[out]("scripted fatal failure")
        raise exc

    # ---- batches ------------------------------------------------------------------------------------------
    def new_batch(self, vectors, pre=None, precisions=None, copies=None):
        """create the designs of a batch; pre[i] = True: already evaluated (through the real Job) before recording starts"""
        from artap.individual import Individual
        from artap.job import Job
        pre = pre or [False] * len(vectors)
        self.inds = []
        for i, vec in enumerate(vectors):
            if copies and copies.get(i) is not None and copies[i] < i:
                # a design derived from another design of the batch the way the algorithms derive offspring: copy(), then a new vector
                ind = self.inds[copies[i]].copy()
                ind.vector = list(vec)
            else:
                ind = (self.classes[i % len(self.classes)] if getattr(self, "classes", None) else Individual)(list(vec))
            if precisions:
                ind.features["precision"] = precisions[i]
            self.inds.append(ind)
        # pre-evaluated designs are evaluated by the real code with recording off
        saved, self.events = self.events, []
        savedgate, self.gate = self.gate, None
        savedscript, self.script = self.script, (lambda k, a, c: "ok")
        for ind, p in zip(self.inds, pre):
            if p:
                Job(self.problem).evaluate(ind)
        self.events, self.gate, self.script = saved, savedgate, savedscript
        self.calls, self.attempt, self.callno = {}, {}, 0
        for i, ind in enumerate(self.inds):
            self.design[id(ind)] = i + 1
        self.pre = list(pre)
        self.batch_event()
        return self.inds

    def rebatch(self, inds):
        """start a NEW recording on existing design objects (their current states are the initial mix): what happened to them before --
        e.g. an evaluation of a larger batch that was aborted by an exception -- is history the framework has to cope with"""
        from artap.individual import Individual
        self.inds = list(inds)
        self.events = []
        self.design = {id(ind): i + 1 for i, ind in enumerate(self.inds)}
        self.pre = [ind.state == Individual.State.EVALUATED for ind in self.inds]
        self.calls, self.attempt, self.callno = {}, {}, 0
        self.returned = {}
        self.batch_event()
        return self.inds

    def batch_event(self):
        with self.lock:
            self.events.append({"ev": "batch", "mode": self.mode, "store": bool(self.db),
                                "designs": [{"k": i + 1, "pre": bool(p), "v": self.vkey(ind.vector)}
                                            for i, (ind, p) in enumerate(zip(self.inds, self.pre))]})

    def end_event(self, exc):
        from artap.individual import Individual
        final = []
        for i, ind in enumerate(self.inds):
            final.append({"k": i + 1, "st": ind.state.name if isinstance(ind.state, Individual.State) else str(ind.state),
                          "v": self.vkey(ind.vector), "cf": self.cf_of(ind) if ind.state == Individual.State.EVALUATED else 0})
        failed = [self.vkey(f.vector) for f in self.problem.failed]
        rows = self.read_rows() if self.db else []
        name = "none" if exc is None else ("RuntimeError" if type(exc) is RuntimeError else "Other")
        with self.lock:
            self.events.append({"ev": "end", "exc": name, "final": final, "failed": failed, "rows": rows,
                                "excmsg": "" if exc is None else "%s: %s" % (type(exc).__name__, str(exc)[:200])})

    def read_rows(self):
        """rows of the individuals table, read through an independent connection"""
        con = sqlite3.connect(self.db, timeout=30)
        try:
            raw = con.execute("SELECT id, individual FROM individuals").fetchall()
        finally:
            con.close()
        byid = {ind.id: i + 1 for i, ind in enumerate(self.inds)}
        rows = []
        for rid, js in raw:
            d = json.loads(js)
            if rid not in byid:
                continue
            v = self.vkey(d["vector"])
            want = d["costs"][:self.m]
            cf = -1
            for t, k in list(self.vkeys.items()):
                if self.costs_of_ints(fp_costs(t, self.m)) == want:
                    cf = k
                    break
            rows.append({"k": byid[rid], "v": v, "cf": cf, "st": d["state"]})
        return rows

    def signed_events(self):
        """one `signed` event per evaluated design of the batch (C05: rounding, sign, marker)"""
        from artap.individual import Individual
        out = []
        signs = [-1 if c == "maximize" else 1 for c in self.criteria]
        for i, ind in enumerate(self.inds):
            if ind.state != Individual.State.EVALUATED or self.pre[i]:
                continue
            k = i + 1
            prec = int(ind.features["precision"])
            cs = ind.costs_signed
            marker = cs[-1] if cs else None
            out.append({"ev": "signed",
                        "costs": [int(round(c * 1e9)) for c in ind.costs[:self.m]],
                        "returned": self.returned.get(k, []),
                        "signs": signs, "prec": prec,
                        "g": self.g_of(ind.vector) if self.constrained else [],
                        "signed": [int(round(float(c) * 1e9)) for c in cs[:-1]] if cs else [],
                        "marker": int(bool(marker)) if isinstance(marker, (bool,)) or marker in (0, 1) else 2,
                        "umarker": 1})
        return out


class _StoreProxy:
    """Observer around the data store: logs every sync_individual after the real store has returned."""
    def __init__(self, rec, real):
        self.rec, self.real = rec, real

    def sync_individual(self, individual):
        rec = self.rec
        k = rec.design.get(id(individual), 0)
        if rec.gate and k:
            rec.gate("sync", k)
        if self.real is not None:
            self.real.sync_individual(individual)
        if k:
            with rec.lock:
                rec.events.append({"ev": "sync", "k": k, "v": rec.vkey(individual.vector), "cf": rec.cf_of(individual),
                                   "st": individual.to_string(individual.state)})
            if getattr(rec, "on_synced", None):
                rec.on_synced(k)

    def sync_all(self):
        if self.real is not None:
            self.real.sync_all()

    def destroy(self):
        if self.real is not None:
            self.real.destroy()

    def __getattr__(self, name):
        return getattr(self.real, name)


def quiesce(rec, timeout=10.0):
    """After an exception has reached the caller of a threaded batch the other workers may still be running: wait until no
    objective call is in flight and every successful return has been followed by its store synchronisation."""
    import time
    t0 = time.time()
    stable = 0
    last = -1
    while time.time() - t0 < timeout:
        with rec.lock:
            state = {}
            for e in rec.events:
                if e["ev"] == "call":
                    state[e["k"]] = "incall"
                elif e["ev"] == "ret":
                    state[e["k"]] = "tosync" if e["out"] == "ok" else "idle"
                elif e["ev"] == "sync":
                    state[e["k"]] = "idle"
            busy = [k for k, v in state.items() if v != "idle"]
            n = len(rec.events)
        if not busy and n == last:
            stable += 1
            if stable >= 3:
                return True
        else:
            stable = 0
        last = n
        time.sleep(0.01)
    return False


def evaluate_batch(rec, workers=1, rounds=1, on_exception=None):
    """Algorithm.evaluate on the recorded batch; returns the exception seen by the caller (or None)."""
    from artap.algorithm import DummyAlgorithm
    # one algorithm object per recorder: repeated evaluate() calls on a problem come from the same algorithm
    alg = getattr(rec, "_alg", None)
    if alg is None:
        alg = rec._alg = DummyAlgorithm(rec.problem)
    alg.options['max_processes'] = workers
    alg.options['verbose_level'] = 0
    exc = None
    for r in range(rounds):
        if r > 0:
            rec.batch_event()
        try:
            alg.evaluate(rec.inds)
        except BaseException as e:      # noqa -- the exception the caller sees is the observation
            if isinstance(e, (KeyboardInterrupt, SystemExit)) or type(e).__name__ == "MachineryError":
                raise
            exc = e
            if on_exception:
                on_exception()
            if workers > 1:
                quiesce(rec, timeout=3.0)
            break
    return exc
