"""Steered thread scheduling of Evaluator.evaluate_parallel (joblib threading backend).

Every objective call and every store synchronisation of a design blocks on a per-(kind, design) gate.  A controller thread
waits until every busy worker is parked at a gate (|blocked| = min(workers, designs not yet finished)), then releases the
gate the schedule names next.  Schedules are TLC-emitted behaviours of the Job model projected onto the controllable
actions: ReturnOk(d) -> ("call", d), SyncBegin..Commit(d) -> ("sync", d).  The recorded trace, not the schedule, is
authoritative: if the real dispatcher cannot realise a schedule it is finished in arrival order (counted, never an alarm).
"""
import threading

from .tlc import MachineryError


class Gates:
    def __init__(self, schedule, ndesigns, workers, timeout=20.0):
        self.schedule = list(schedule)          # list of (kind, k)
        self.cv = threading.Condition()
        self.blocked = []                       # [(kind, k), Event] in arrival order (a key may occur twice if the code misbehaves)
        self.finished = 0
        self.n = ndesigns                       # designs that will actually be evaluated (not pre-evaluated ones)
        self.w = workers
        self.timeout = timeout
        self.stalled = False
        self.realised = True
        self.over = False
        self.order = []

    # ---- called from worker threads ----
    def finish(self):
        """the batch call has returned (normally or with an exception): stop steering, let everything run"""
        with self.cv:
            self.over = True
            for _, ev in self.blocked:
                ev.set()
            self.blocked = []
            self.cv.notify_all()

    def gate(self, kind, k):
        ev = threading.Event()
        with self.cv:
            if self.over:
                return
            self.blocked.append(((kind, k), ev))
            self.cv.notify_all()
        if not ev.wait(self.timeout * 2):
            self.realised = False          # nobody released this gate (the controller has finished): carry on unsteered

    def done(self, k):
        with self.cv:
            self.finished += 1
            self.cv.notify_all()

    # ---- controller thread ----
    def _settled(self):
        return self.over or self.finished >= self.n or len(self.blocked) == min(self.w, self.n - self.finished)

    def controller(self):
        pos = 0
        while True:
            with self.cv:
                waited = 0.0
                while not self.cv.wait_for(self._settled, timeout=0.5):
                    waited += 0.5
                    if self.blocked and waited >= 1.5:
                        # the code under test does not follow the expected gate protocol (e.g. it synchronises a design twice):
                        # keep it moving in arrival order -- the recorded trace is judged, not the schedule
                        self.realised = False
                        break
                    if waited >= self.timeout:
                        self.stalled = True
                        return
                if self.over or (self.finished >= self.n and not self.blocked):
                    self.over = True       # from here on every gate is open (covers code that passes more gates than expected)
                    return
                if not self.blocked:
                    continue
                want = None
                while pos < len(self.schedule):
                    cand = self.schedule[pos]
                    if any(key == cand for key, _ in self.blocked):
                        want = cand
                        pos += 1
                        break
                    if cand in self.order:      # already executed out of order
                        pos += 1
                        continue
                    self.realised = False       # the dispatcher cannot reach this step now: fall back to arrival order
                    break
                if want is None:
                    # unsteered from here: NOT the submission order (that is the one order careless code gets right) -- the highest design first
                    want = sorted((key for key, _ in self.blocked), key=lambda kk: (kk[1], kk[0]))[-1]
                i = next(i for i, (key, _) in enumerate(self.blocked) if key == want)
                ev = self.blocked.pop(i)[1]
                self.order.append(want)
            ev.set()
