"""Steered thread scheduling of Evaluator.evaluate_parallel (joblib threading backend).

Every objective call and every store synchronisation blocks on a per-(kind, design) gate; a controller thread releases the
gates in the order given by a schedule (a TLC-emitted behaviour of the Job model projected onto the controllable actions
ReturnOk(d) -> ("call", d) and SyncBegin/Commit(d) -> ("sync", d)).  The trace, not the schedule, is authoritative: a
schedule the real dispatcher cannot realise is finished in arrival order and the recorded trace is validated all the same.
"""
import threading

from .tlc import MachineryError


class Gates:
    def __init__(self, schedule, total, timeout=20.0):
        self.schedule = list(schedule)          # list of (kind, k)
        self.cv = threading.Condition()
        self.blocked = {}                       # (kind, k) -> Event
        self.released = 0
        self.total = total                      # number of gate passages expected
        self.timeout = timeout
        self.stalled = False
        self.realised = True
        self.done = False
        self.order = []

    def gate(self, kind, k):
        ev = threading.Event()
        with self.cv:
            self.blocked[(kind, k)] = ev
            self.cv.notify_all()
        if not ev.wait(self.timeout * 3):
            self.stalled = True
            raise MachineryError("gate timeout at %s %s" % (kind, k))

    def finish(self):
        with self.cv:
            self.done = True
            self.cv.notify_all()

    def controller(self):
        pos = 0
        while True:
            with self.cv:
                if self.done and not self.blocked:
                    return
                want = self.schedule[pos] if pos < len(self.schedule) else None
                if want is not None and want not in self.blocked:
                    # wait for the wanted gate to be reached; if everything that can move is blocked elsewhere, give up on it
                    ok = self.cv.wait_for(lambda: want in self.blocked or self.done, timeout=0.5)
                    if not ok or (self.done and want not in self.blocked):
                        if self.blocked:
                            self.realised = False
                            want = sorted(self.blocked)[0]
                        elif self.done:
                            return
                        else:
                            continue
                if want is None:
                    if not self.blocked:
                        ok = self.cv.wait_for(lambda: self.blocked or self.done, timeout=self.timeout)
                        if not ok:
                            self.stalled = True
                            return
                        if not self.blocked:
                            return
                    want = sorted(self.blocked)[0]
                ev = self.blocked.pop(want)
                self.order.append(want)
                if pos < len(self.schedule) and self.schedule[pos] == want:
                    pos += 1
                else:
                    # executed out of schedule order: drop it from the remaining schedule
                    if want in self.schedule[pos:]:
                        self.schedule.remove(want) if self.schedule.index(want) >= pos else None
            ev.set()
            # let the released thread run on to its next gate (or to completion) before choosing again
            with self.cv:
                self.cv.wait_for(lambda: self._moved(want), timeout=2.0)

    def _moved(self, want):
        kind, k = want
        if kind == "call":
            return ("sync", k) in self.blocked or ("call", k) in self.blocked or self.done
        return True
