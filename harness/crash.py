"""Crash-point enumeration for the SQLite store (C11).

A forked child creates a real SqliteDataStore, evaluates designs with the real artap code and dies with os._exit at crash
point k (no clean-up handlers run).  Crash points: entry / exit of the user's objective and before / after every SQL
statement and every commit issued through sqlite3 (a proxy installed around sqlite3.connect).  Events are written with
os.write to an append-only log (they survive os._exit).  The parent then opens the database like a fresh reader would.
"""
import json
import os
import signal
import sqlite3
import threading
import time

from . import absx, jobrec


def child_main(db, logpath, crash_at, scenario, seed, slow=False):
    import random as pyrandom
    logfd = os.open(logpath, os.O_WRONLY | os.O_CREAT | os.O_APPEND, 0o644)
    lock = threading.RLock()
    state = {"n": 0, "armed": False}

    def log(ev):
        os.write(logfd, (json.dumps(ev) + "\n").encode())

    def point(name):
        with lock:
            if not state["armed"]:
                return
            state["n"] += 1
            n = state["n"]
            if crash_at and n == crash_at:
                log({"ev": "crash", "point": n, "name": name})
                os._exit(17)
            if slow:
                time.sleep(0.0005)

    real_connect = sqlite3.connect

    class Cur:
        def __init__(self, c):
            self._c = c

        def execute(self, sql, *a):
            point("exec-before")
            if scenario == "contended" and state.get("in_sync") and "INSERT INTO individuals" in sql:
                # lock contention at the sqlite3 boundary: what a second connection holding the write lock beyond the busy timeout causes
                state["upserts"] = state.get("upserts", 0) + 1
                if state["upserts"] in (2, 5):      # only inside sync_individual (which retries); sync_all has no retry and may raise
                    point("exec-locked")
                    raise sqlite3.OperationalError("database is locked")
            r = self._c.execute(sql, *a)
            point("exec-after")
            return r

        def __iter__(self):             # rows may be streamed from the cursor (special methods are not found through __getattr__)
            return iter(self._c)

        def __next__(self):
            return next(self._c)

        def __getattr__(self, name):
            return getattr(self._c, name)

    class Conn:
        def __init__(self, c):
            self._c = c

        def cursor(self):
            return Cur(self._c.cursor())

        def commit(self):
            point("commit-before")
            self._c.commit()
            point("commit-after")

        def __getattr__(self, name):
            return getattr(self._c, name)

    sqlite3.connect = lambda *a, **k: Conn(real_connect(*a, **k))
    try:
        import logging
        logging.disable(logging.CRITICAL)
        from artap.datastore import SqliteDataStore
        from artap.individual import Individual
        pyrandom.seed(seed)
        rng = pyrandom.Random(seed)

        def objective(ind):
            point("obj-enter")
            c = [n / 1e9 for n in jobrec.fp_costs(ind.vector, 2)]
            point("obj-exit")
            return c
        problem = absx.make_problem(2, bounds=[[-5.0, 5.0]] * 2, evaluate=objective,
                                    costs=[{'name': 'f_1', 'criteria': 'minimize'}, {'name': 'f_2', 'criteria': 'minimize'}])
        # "-nts" scenarios: the non-default single-connection mode (thread_safe=False, journal OFF) -- extension X05, not C11
        nts = scenario.endswith("-nts")
        if nts:
            scenario = scenario[:-4]
        store = SqliteDataStore(problem, database_name=db, thread_safe=False) if nts else SqliteDataStore(problem, database_name=db)
        real_sync = store.sync_individual
        objs = {}

        def sync_individual(ind):
            state["in_sync"] = state.get("in_sync", 0) + 1
            try:
                real_sync(ind)
            finally:
                state["in_sync"] -= 1
            with lock:
                serial = objs.setdefault(id(ind), (len(objs) + 1, ind))[0]        # which design OBJECT this was (kept alive: id() stays unique)
                log({"ev": "syncret", "id": int(ind.id), "obj": serial, "vector": [float(v) for v in ind.vector],
                     "costs": [float(c) for c in ind.costs]})
        store.sync_individual = sync_individual
        problem.data_store = store
        log({"ev": "created"})
        state["armed"] = True            # the property starts once the store has been created for the run
        if scenario == "presync":
            # algorithms of the Monte-Carlo / CMA-ES / CEM family record and synchronise their designs BEFORE evaluating them
            from artap.algorithm import DummyAlgorithm
            alg = DummyAlgorithm(problem)
            alg.options['max_processes'] = 1
            inds = [Individual([round(rng.uniform(-5, 5), 6), round(rng.uniform(-5, 5), 6)]) for _ in range(3)]
            for i in inds:
                problem.individuals.append(i)
                store.sync_individual(i)
            alg.evaluate(inds)
            store.sync_all()
        elif scenario in ("serial", "parallel", "contended"):
            from artap.algorithm import DummyAlgorithm
            alg = DummyAlgorithm(problem)
            alg.options['max_processes'] = 2 if scenario == "parallel" else 1
            inds = [Individual([round(rng.uniform(-5, 5), 6), round(rng.uniform(-5, 5), 6)]) for _ in range(4 if scenario == "parallel" else 3)]
            for i in inds:
                problem.individuals.append(i)
            alg.evaluate(inds)
            store.sync_all()
        elif scenario == "monitored":
            # a run that is looked at while it is going on: after the first batch (evaluated, hence stored, in an order that is not the id
            # order) the same process opens a read-mode view of the file -- a progress plot -- and then goes on with new designs
            from artap.algorithm import DummyAlgorithm
            from artap.problem import ProblemViewDataStore
            alg = DummyAlgorithm(problem)
            alg.options['max_processes'] = 1
            first = [Individual([round(rng.uniform(-5, 5), 6), round(rng.uniform(-5, 5), 6)]) for _ in range(3)]
            for i in first:
                problem.individuals.append(i)
            alg.evaluate(list(reversed(first)))
            ProblemViewDataStore(database_name=db)
            second = [Individual([round(rng.uniform(-5, 5), 6), round(rng.uniform(-5, 5), 6)]) for _ in range(3)]
            for i in second:
                problem.individuals.append(i)
            alg.evaluate(second)
            store.sync_all()
        elif scenario == "bulk":
            # many large individuals, annotated after their evaluation and written again by one sync_all (one big transaction)
            from artap.algorithm import DummyAlgorithm
            alg = DummyAlgorithm(problem)
            inds = [Individual([round(rng.uniform(-5, 5), 6), round(rng.uniform(-5, 5), 6)]) for _ in range(600)]
            for i in inds:
                problem.individuals.append(i)
            alg.evaluate(inds)
            for i in inds:
                i.custom = {"note": "x" * 40, "trace": [rng.random() for _ in range(120)]}
            store.sync_all()
        else:
            if scenario == "nsga2":
                from artap.algorithm_NSGAII import NSGAII as A
            else:
                from artap.algorithm_genetic import EpsMOEA as A
            alg = A(problem)
            alg.options['max_population_number'] = 2
            alg.options['max_population_size'] = 3
            alg.options['verbose_level'] = 0
            alg.run()
        log({"ev": "finished", "points": state["n"]})
    except BaseException as e:      # noqa
        log({"ev": "childerror", "what": "%s: %s" % (type(e).__name__, str(e)[:200])})
        os._exit(3)
    os._exit(0)


def spawn(db, logpath, crash_at, scenario, seed, slow=False):
    pid = os.fork()
    if pid == 0:
        try:
            devnull = os.open(os.devnull, os.O_WRONLY)
            os.dup2(devnull, 1)
            os.dup2(devnull, 2)
            child_main(db, logpath, crash_at, scenario, seed, slow)
        finally:
            os._exit(4)
    return pid


def read_log(logpath):
    evs = []
    try:
        with open(logpath) as f:
            for line in f:
                line = line.strip()
                if not line:
                    continue
                try:
                    evs.append(json.loads(line))
                except ValueError:
                    break            # a torn last line (SIGKILL in the middle of a write)
    except OSError:
        pass
    return evs


REQUIRED = ("id", "vector", "costs", "costs_signed", "state", "population_id", "algorithm_id", "custom", "features", "parents", "children")


def recover(db):
    """open the file the way a fresh reader would; returns the recover event (keys are filled in by the caller)"""
    ev = {"ev": "recover", "readable": True, "dup": 0, "rows": [], "why": ""}
    try:
        import logging
        logging.disable(logging.CRITICAL)
        from artap.problem import ProblemViewDataStore
        view = ProblemViewDataStore(database_name=db)
        n_view = len(view.individuals)
        con = sqlite3.connect(db, timeout=30)
        try:
            raw = con.execute("SELECT id, individual FROM individuals").fetchall()
            ev["dup"] = con.execute("SELECT count(*) - count(DISTINCT id) FROM individuals").fetchone()[0]
            integrity = con.execute("PRAGMA integrity_check").fetchone()[0]
        finally:
            con.close()
        if integrity != "ok":
            ev["readable"] = False
            ev["why"] = "integrity_check: " + str(integrity)[:100]
        if n_view != len(raw):
            ev["readable"] = False
            ev["why"] = "view shows %d individuals, table has %d rows" % (n_view, len(raw))
        for rid, js in raw:
            row = {"id": int(rid), "vector": [], "costs": [], "complete": True, "st": "?"}
            try:
                d = json.loads(js)
                row["complete"] = all(k in d for k in REQUIRED) and d["id"] == rid
                row["vector"] = [float(v) for v in d.get("vector", [])]
                row["costs"] = [float(c) for c in d.get("costs", [])]
                row["st"] = str(d.get("state"))
                if row["st"] == "evaluated" and (len(d.get("costs_signed", [])) != len(row["costs"]) + 1):
                    row["complete"] = False
            except Exception:      # noqa
                row["complete"] = False
            ev["rows"].append(row)
    except Exception as e:      # noqa
        ev["readable"] = False
        ev["why"] = "%s: %s" % (type(e).__name__, str(e)[:160])
    return ev
