"""./check <property-id> [--tier quick|thorough] [--replay <path>]   |   ./check --setup"""
import argparse
import importlib
import json
import os
import sys
import traceback

from . import core, tlc
from .tlc import MachineryError

PROPS = ["C%02d" % i for i in range(1, 21)]
# extensions beyond the listed properties (DESIGN.md section 11); run by ./extras, not registered in MANIFEST.json
EXTRAS = ["X01", "X02", "X03", "X04", "X05", "X06"]


def setup():
    """Offline build step: SANY-parse every module, check that artap imports from the working tree."""
    bad = 0
    mods = sorted(f[:-4] for f in os.listdir(tlc.SPEC_DIR) if f.endswith(".tla"))
    for m in mods:
        ok, out = tlc.sany(m)
        if not ok:
            bad += 1
            print("SANY FAILED:", m)
            print(out[-1500:])
    sys.path.insert(0, core.REPO)
    import artap  # noqa
    from artap.individual import Individual  # noqa
    print("setup: %d modules parsed, %d failed; artap from %s" % (len(mods), bad, os.path.dirname(artap.__file__)))
    return 1 if bad else 0


def main():
    ap = argparse.ArgumentParser()
    ap.add_argument("pid", nargs="?")
    ap.add_argument("--tier", default=os.environ.get("VERIF_TIER", "quick"), choices=["quick", "thorough"])
    ap.add_argument("--replay")
    ap.add_argument("--setup", action="store_true")
    a = ap.parse_args()
    if a.setup:
        sys.exit(setup())
    if a.pid not in PROPS + EXTRAS:
        print("unknown property", a.pid)
        sys.exit(2)
    seed = int(os.environ.get("VERIF_SEED", "0") or 0)
    os.environ.setdefault("PYTHONDONTWRITEBYTECODE", "1")
    sys.dont_write_bytecode = True
    sys.path.insert(0, core.REPO)
    ctx = core.Ctx(a.pid, a.tier, seed)
    # artap's Problem creates its working directory under tempfile.gettempdir(): keep it in our scratch
    import tempfile
    tmpd = os.path.join(ctx.scratch, "tmp")
    os.makedirs(tmpd, exist_ok=True)
    tempfile.tempdir = tmpd
    # artap, joblib and sqlite chatter goes to stderr: drop it (our own output uses the saved stdout)
    os.dup2(os.open(os.devnull, os.O_WRONLY), 2)
    import warnings
    warnings.filterwarnings('ignore')
    # watchdog: a hang anywhere (driver loop, gate, TLC) is a machinery failure, never an endless run
    import faulthandler
    import signal

    def on_alarm(signum, frame):
        print('MACHINERY-FAILURE property=%s: watchdog expired' % a.pid, file=ctx.real_stdout, flush=True)
        faulthandler.dump_traceback(file=ctx.real_stdout)
        ctx.cleanup()
        os._exit(2)
    signal.signal(signal.SIGALRM, on_alarm)
    signal.alarm(900 if a.tier == 'quick' else 4 * 3600)
    rc = 2
    try:
        drv = importlib.import_module("harness.drivers." + a.pid.lower())
        replay = None
        if a.replay:
            with open(a.replay) as f:
                replay = json.load(f)
        rc = drv.run(ctx, replay)
    except MachineryError as e:
        print("MACHINERY-FAILURE property=%s: %s" % (a.pid, e), file=ctx.real_stdout)
        rc = 2
    except Exception:
        print("MACHINERY-FAILURE property=%s (harness exception)" % a.pid, file=ctx.real_stdout)
        traceback.print_exc(file=ctx.real_stdout)
        rc = 2
    finally:
        ctx.cleanup()
    sys.stdout.flush()
    os._exit(rc)      # artap registers one atexit rmtree per Problem; the scratch dir is already gone


if __name__ == "__main__":
    main()
