"""Projection / concretisation helpers shared by the drivers (the Python-side trusted base)."""
import logging


def make_problem(dim, bounds=None, costs=None, evaluate=None, constraints=None, cls_name="P"):
    """A real artap Problem with `dim` parameters; evaluate/constraints are harness-supplied callables."""
    from artap.problem import Problem
    bounds = bounds or [[-1000.0, 1000.0]] * dim
    costs = costs or [{'name': 'f_1', 'criteria': 'minimize'}]

    class P(Problem):
        def set(self, **kw):
            self.name = cls_name
            self.parameters = [dict({'name': 'x%d' % i, 'bounds': list(bounds[i])}) for i in range(dim)]
            self.costs = [dict(c) for c in costs]

        def evaluate(self, individual):
            return evaluate(individual)

        def evaluate_inequality_constraints(self, x):
            if constraints is None:
                return []
            return constraints(x)
    p = P()
    p.logger.setLevel(logging.CRITICAL)
    for h in list(p.logger.handlers):
        p.logger.removeHandler(h)
    return p
