"""Projection / concretisation helpers shared by the drivers (the Python-side trusted base)."""
import logging


PARAM_NAMES = ['x_10', 'x_2', 'width', 'angle', 'zeta', 'beta', 'alpha', 'mass', 'k', 'y', 'c', 'x_1', 'b', 'a']


def make_problem(dim, bounds=None, costs=None, evaluate=None, constraints=None, cls_name="P"):
    """A real artap Problem with `dim` parameters; evaluate/constraints are harness-supplied callables."""
    from artap.problem import Problem
    bounds = bounds or [[-1000.0, 1000.0]] * dim
    costs = costs or [{'name': 'f_1', 'criteria': 'minimize'}]

    class P(Problem):
        def set(self, **kw):
            self.name = cls_name
            # declaration order deliberately differs from the lexicographic order of the names (name-keyed code must not reorder)
            self.parameters = [dict({'name': PARAM_NAMES[i] if i < len(PARAM_NAMES) else 'q%d' % (99 - i), 'bounds': list(bounds[i])})
                               for i in range(dim)]
            self.costs = [dict(c) for c in costs]

        def evaluate(self, individual):
            return evaluate(individual)

        def evaluate_inequality_constraints(self, x):
            if constraints is None:
                return []
            return constraints(x)
    p = P()
    p.logger.setLevel(logging.CRITICAL)
    for h in list(p.logger.handlers):
        p.logger.removeHandler(h)
    return p


# ------------------------------------------------------------------------------------------------
# order abstraction
# ------------------------------------------------------------------------------------------------
def monotone_map(rng, n, style=None):
    """n strictly increasing floats with relative gaps >= 1e-6 (ranks 0..n-1 -> floats).

    Styles cover negative values (maximised objectives), tiny and huge magnitudes, integers, and mixtures."""
    style = style or rng.choice(["int", "neg", "unit", "tiny", "huge", "mixed", "offset", "minuscule", "bigoffset"])
    if style == "bigoffset":
        # large magnitude, small differences: values that any relative tolerance of 1e-9 or coarser would merge
        base = rng.choice([1e9, -1e9, 4e8])
        step = rng.choice([0.5, 0.01])
        return sorted(base + step * k for k in rng.sample(range(0, 60), n))
    if style == "minuscule":
        # magnitudes whose products underflow (1e-170 * 1e-170 = 0.0) and whose differences are exact
        unit = rng.choice([1e-170, 3e-165, 1e-200]) * rng.choice([-1, 1])
        return sorted(unit * k for k in rng.sample(range(1, 40), n))
    if style == "close":
        # distinct values far closer to each other than any plausible tolerance, yet far above rounding error (only on request)
        base = rng.choice([0.0, 1.0, -3.5, 250.0])
        step = rng.choice([1e-7, 3e-8, 1e-9])
        return [base + k * step for k in range(n)]
    if style == "int":
        start = rng.randint(-5, 5)
        vals = [float(start + k * rng.choice([1, 1, 2, 3])) for k in range(n)]
        vals = sorted(set(vals))
        while len(vals) < n:
            vals.append(vals[-1] + 1.0)
    elif style == "neg":
        vals = sorted(-rng.uniform(0.1, 100.0) for _ in range(n))
    elif style == "unit":
        vals = sorted(rng.uniform(0.0, 1.0) for _ in range(n))
    elif style == "tiny":
        vals = sorted(rng.uniform(1e-9, 1e-6) * rng.choice([-1, 1]) for _ in range(n))
    elif style == "huge":
        vals = sorted(rng.uniform(1e6, 1e12) * rng.choice([-1, 1]) for _ in range(n))
    elif style == "offset":
        base = rng.choice([1e3, -1e3, 12345.678])
        vals = sorted(base + rng.uniform(0.0, 1.0) for _ in range(n))
    else:
        vals = sorted(rng.choice([-1, 1]) * 10 ** rng.uniform(-4, 6) for _ in range(n))
    # enforce separation
    out = []
    for v in vals:
        if out:
            gap = 1e-5 * max(1.0, abs(out[-1]), abs(v))
            if v - out[-1] < gap:
                v = out[-1] + gap
        out.append(v)
    return out


def dense_ranks(columns):
    """list of equal-length float vectors -> per-coordinate dense ranks (ints); raises ValueError on near-ties."""
    if not columns:
        return []
    m = len(columns[0])
    ranks = [[0] * m for _ in columns]
    for i in range(m):
        vals = sorted({v[i] for v in columns})
        for a, b in zip(vals, vals[1:]):
            if b - a < 1e-12 * max(abs(a), abs(b)):
                raise ValueError("near tie")
        idx = {v: k for k, v in enumerate(vals)}
        for k, v in enumerate(columns):
            ranks[k][i] = idx[v[i]]
    return ranks


MARK_REPR = {
    0: [False, 0, 0.0],
    1: [True, 1, 1.0, 0.25],
    -1: [-1, -1.0, -0.25],
    2: [2, 2.5, 7.0],
    -2: [-2, -2.5, -7.0],
}


def concrete_marker(rng, m, style):
    """abstract marker -> concrete value; |.|-order and sign are preserved: style fixes the scale used for 1/2."""
    reps = {0: [False, 0, 0.0][style % 3], 1: [True, 1, 0.25][style % 3], -1: [-1, -1, -0.25][style % 3],
            2: [2, 2.5, 7.0][style % 3], -2: [-2, -2.5, -7.0][style % 3]}
    return reps[m]


def abstract_marker(x):
    """concrete marker -> abstract integer preserving zero-ness, sign and the order of magnitudes used by the drivers."""
    x = float(x)
    if x == 0:
        return 0
    mag = 1 if abs(x) <= 1.0 else 2
    return mag if x > 0 else -mag


def individual_class(rng):
    """the framework's own design classes: the plain Individual and the algorithm-specific subclasses"""
    from artap.algorithm_NSGAII import IndividualNSGAII
    from artap.algorithm_genetic import IndividualEpsMOEA
    from artap.algorithm_swarm import IndividualSwarm
    from artap.individual import Individual
    return rng.choice([Individual, Individual, IndividualNSGAII, IndividualEpsMOEA, IndividualSwarm])
