"""C18 -- swarm: personal best never regresses, velocity clamped, positions reset to the violated bound, leader set bounded.

spec: Swarm.tla (SetVelocity / Move / Evaluate / UpdateBest / UpdateLeaders), SwarmTrace.tla
code: artap.algorithm_swarm.SwarmAlgorithm.update_particle_best / speed_constriction / update_velocity,
      OMOPSO / SMPSO / PSOGA .update_position / .update_global_best
"""
import math
from fractions import Fraction

from .. import absx, core, tlc
from ..core import Part, Skip, observe
from .c02 import export_vecs

MC_CFG = """CONSTANTS Lb = 0
Ub = 4
PosRange <- PosDef
VelRange <- VelDef
Kinds = {"reverse", "damp"}
M = 2
Vals = {%s}
Marks = {0, 1}
N = %d
MaxGen = %d
SPECIFICATION Spec
INVARIANT InBoxAfterMove
INVARIANT ClampedVelocity
INVARIANT LeadersBounded
PROPERTY BestNeverRegresses
CHECK_DEADLOCK FALSE
"""
KIND = {"omopso": "reverse", "psoga": "reverse", "smpso": "damp"}


def make_alg(name, problem, n=5, g=2):
    from artap import algorithm_swarm as sw
    alg = {"omopso": sw.OMOPSO, "smpso": sw.SMPSO, "psoga": sw.PSOGA}[name](problem)
    alg.options['max_population_size'] = n
    alg.options['max_population_number'] = g
    alg.options['verbose_level'] = 0
    return alg


def two_obj_problem(bounds=None, dim=2, criteria=('minimize', 'minimize')):
    bounds = bounds or [[0.0, 4.0]] * dim
    dim = len(bounds)

    def f(ind):
        x = ind.vector
        return [round(abs(x[0]), 1), round(abs(x[-1] - 1.0) + 0.5 * abs(x[0] - 2.0), 1)]
    return absx.make_problem(dim, bounds=bounds, evaluate=f,
                             costs=[{'name': 'f_1', 'criteria': criteria[0]}, {'name': 'f_2', 'criteria': criteria[1]}])


def project_members(members):
    try:
        ranks = absx.dense_ranks([m.costs_signed[:-1] for m in members])
    except ValueError:
        raise Skip()
    return [{"c": r, "m": absx.abstract_marker(m.costs_signed[-1])} for r, m in zip(ranks, members)]


class Moves(Part):
    name = "moves"
    trace_module = "SwarmTrace"
    trace_shards = 8

    def mc(self, ctx):
        runs = [tlc.run("Swarm", MC_CFG % ("0, 1", 2, 2), ctx.scratch, workers=16, coverage=True, name="Swarm-mc", timeout=2400)]
        if not ctx.quick:
            runs.append(tlc.run("Swarm", MC_CFG % ("0, 1, 2", 2, 2), ctx.scratch, workers=16, name="Swarm-mc-3vals", timeout=3400))
            runs.append(tlc.run("Swarm", MC_CFG % ("0, 1", 3, 3), ctx.scratch, workers=16, name="Swarm-mc-3gen", timeout=3400))
        return runs

    def cases(self, ctx):
        rng = ctx.rng
        cases = []
        # the model's complete Move table (pos -3..7 x vel -9..9 on the box [0, 4]), for the three swarm classes, on shifted / scaled boxes
        for alg in ("omopso", "smpso", "psoga"):
            for shift, scale in ((0, 1), (-10, 1), (100, 3), (-7, 0.5)) if not ctx.quick else ((0, 1), (-10, 1), (-7, 0.5)):
                cases.append({"kind": "movetable", "alg": alg, "shift": shift, "scale": scale})
            # the same table on boxes whose bounds, centre and width are not exactly representable: a coordinate that leaves the box is put
            # ON the violated bound (the very float the box declares), not next to it
            for box in ([0.1, 0.4], [-1.3, 2.9], [1.0 / 3.0, 3.141592653589793], [1e6 / 7.0, 2e6 / 7.0], [-0.7, 0.1]):
                cases.append({"kind": "movetable", "alg": alg, "shift": 0, "scale": 1, "box": box})
        cases.append({"kind": "constrict"})
        for alg in ("omopso", "smpso", "psoga"):
            for _ in range(30 if ctx.quick else 2500):
                cases.append({"kind": "velocity", "alg": alg, "cseed": rng.randrange(1 << 30)})
        return cases

    def run_case(self, ctx, case):
        import random as pyrandom
        from artap.algorithm_swarm import SwarmAlgorithm
        from artap.individual import Individual
        if case["kind"] == "movetable":
            sh, sc = case["shift"], case["scale"]
            lb, ub = 0, 4
            box = case.get("box")
            if box:
                L, U = box
                w = (U - L) / 4.0
                to_pos, to_vel = (lambda q: L + q * w), (lambda q: q * w)
                bounds = [[L, U]] * 3
            else:
                to_pos, to_vel = (lambda q: (q + sh) * sc), (lambda q: q * sc)
                bounds = [[(lb + sh) * sc, (ub + sh) * sc]] * 3
            alg = make_alg(case["alg"], two_obj_problem(bounds, 3))
            trace = []
            combos = [(p, v) for p in range(-3, 8) for v in range(-9, 10)]
            if box:
                # landing exactly on a bound is decided by rounding on such a box: the model's verdict needs a clear inside / outside
                combos = [(p, v) for p, v in combos if p + v not in (0, 4)]
            # three coordinates per particle: the loop over coordinates is part of what is checked
            for i in range(0, len(combos) - 2, 3):
                tri = combos[i:i + 3]
                ind = Individual([to_pos(p) for p, v in tri])
                ind.features['velocity'] = [to_vel(v) for p, v in tri]
                st, res = observe(alg.update_position, [ind])
                for j, (p, v) in enumerate(tri):
                    ev = {"ev": "move", "kind": KIND[case["alg"]], "lb": lb, "ub": ub, "pos": p, "vel": v, "pos2": 0, "vel2": [0, 1], "exc": ""}
                    if st == "exc":
                        ev["exc"] = res
                    elif box:
                        x = ind.vector[j]
                        v2 = (Fraction(ind.features['velocity'][j]) / Fraction(w)).limit_denominator(100000)
                        ev["vel2"] = [v2.numerator, v2.denominator]
                        q = (x - L) / w
                        if x == U or x == L:
                            ev["pos2"] = 4 if x == U else 0
                        elif L < x < U and abs(q - round(q)) < 1e-6 and 0 < round(q) < 4:
                            ev["pos2"] = int(round(q))
                        else:
                            ev["exc"] = "position %r is neither inside the box on the expected lattice point nor on a bound of [%r, %r]" % (x, L, U)
                    else:
                        p2 = Fraction(ind.vector[j]) / Fraction(sc) - sh
                        v2 = (Fraction(ind.features['velocity'][j]) / Fraction(sc)).limit_denominator(100000)
                        if p2.denominator != 1:
                            ev["exc"] = "position is not on the integer lattice: %r" % ind.vector[j]
                        else:
                            ev["pos2"] = int(p2)
                            ev["vel2"] = [v2.numerator, v2.denominator]
                    trace.append(ev)
            return trace
        if case["kind"] == "constrict":
            trace = []
            for lb, ub in ((0, 4), (-6, -2), (10, 30), (-1, 1)):
                for v in range(-25, 26):
                    st, res = observe(SwarmAlgorithm.speed_constriction, v, ub, lb)
                    ev = {"ev": "constrict", "v": v, "lb": lb, "ub": ub, "res2": 0, "exc": ""}
                    if st == "exc":
                        ev["exc"] = res
                    else:
                        ev["res2"] = int(round(2 * res))
                    trace.append(ev)
            return trace
        # update_velocity on a real swarm with leaders: every component must end within +/- half the range
        rng = pyrandom.Random(case["cseed"])
        pyrandom.seed(case["cseed"])
        bounds = rng.choice([[[0.0, 4.0], [0.0, 4.0]], [[-3.0, -1.0], [1e-9, 2e-9]], [[-1e6, 1e6], [100.0, 100.5]],
                             # parameters of very different widths, the widest last / in the middle / first
                             [[1e-9, 2e-9], [-1e6, 1e6]], [[100.0, 101.0], [-3.0, -1.0], [0.0, 1000.0]], [[0.0, 0.5], [-50.0, 50.0], [2.0, 3.0]]])
        problem = two_obj_problem(bounds)
        alg = make_alg(case["alg"], problem)
        swarm = []
        for k in range(5):
            ind = Individual([rng.uniform(b[0], b[1]) for b in bounds])
            ind.costs = problem.evaluate(ind)
            ind.costs_signed = list(ind.costs) + [True]
            ind.features['best_vector'] = [rng.uniform(b[0], b[1]) for b in bounds]
            ind.features['best_cost'] = list(ind.costs_signed)
            ind.features['crowding_distance'] = rng.random()
            ind.features['velocity'] = [0.0] * len(bounds)
            swarm.append(ind)
        if rng.random() < 0.4:
            # a particle that sits on its own personal best AND is the only leader (the copy of a leader in the first generation): every
            # attraction term vanishes, the clamp must hold all the same
            me = swarm[0]
            me.features['best_vector'] = list(me.vector)
            alg.leaders.add(me)
            for other in swarm[1:]:
                if rng.random() < 0.5:
                    other.vector = list(me.vector)
                    other.features['best_vector'] = list(me.vector)
        else:
            for ind in swarm[:3]:
                alg.leaders.add(ind)
        st, res = observe(alg.update_velocity, swarm)
        trace = []
        for ind in swarm:
            for j, b in enumerate(bounds):
                half = (b[1] - b[0]) / 2.0
                v = ind.features['velocity'][j]
                scale = 1e6 / half
                ev = {"ev": "velocity", "absv": 0, "half": 1000000, "exc": "" if st == "ok" else res}
                if st == "ok":
                    if isinstance(v, complex) or math.isnan(v):
                        ev["exc"] = "velocity is not a real number"
                    else:
                        ev["absv"] = int(math.floor(abs(v) * scale * (1 - 1e-12)))
                trace.append(ev)
        return trace

    def nontrivial(self, case, trace):
        return True

    def key(self, case, trace, fail):
        return "swarm:%s:%s:%s" % (case["kind"], case.get("alg", "-"), fail["clause"])

    def sample(self, case, trace):
        return {"case": case, "trace": trace[40:44] or trace[:3]}


class Bests(Part):
    name = "personal-best-and-leaders"
    trace_module = "SwarmTrace"
    trace_shards = 8

    def cases(self, ctx):
        rng = ctx.rng
        vecs = export_vecs(ctx, 2)
        cases = []
        pairs = [(a, b) for a in vecs for b in vecs]
        for alg in ("omopso", "smpso", "psoga"):
            chunk = 54
            for i in range(0, len(pairs), chunk):
                cases.append({"kind": "best", "alg": alg, "pairs": pairs[i:i + chunk], "cseed": rng.randrange(1 << 30)})
        for alg in ("omopso", "smpso", "psoga"):
            for _ in range(30 if ctx.quick else 2500):
                # small swarms and several objectives: the non-dominated set regularly outgrows the swarm, so truncation is exercised
                cases.append({"kind": "leaders", "alg": alg, "n": rng.choice([2, 2, 3, 4, 6]), "gens": rng.randint(3, 6), "m": rng.choice([1, 2, 2, 3]),
                              "cseed": rng.randrange(1 << 30)})
            for _ in range(4 if ctx.quick else 300):
                cases.append({"kind": "run", "alg": alg, "n": rng.randint(3, 8), "g": rng.randint(2, 6), "cseed": rng.randrange(1 << 30)})
        return cases

    def run_case(self, ctx, case):
        import random as pyrandom
        from artap.individual import Individual
        rng = pyrandom.Random(case["cseed"])
        pyrandom.seed(case["cseed"])
        # whole runs and leader scripts also on problems that maximise an objective (signed costs differ from the raw ones)
        crit = [('minimize', 'minimize'), ('minimize', 'maximize'), ('maximize', 'minimize')][case.get("cseed", 0) % 3]
        alg = make_alg(case["alg"], two_obj_problem(criteria=crit), n=case.get("n", 5), g=case.get("g", 2))
        if case["kind"] == "best":
            maps = [absx.monotone_map(rng, 3) for _ in range(2)]
            mstyle = rng.randrange(3)
            trace = []
            for new, old in case["pairs"]:
                ind = Individual([rng.random(), rng.random()])
                ind.costs_signed = [maps[i][new["c"][i]] for i in range(2)] + [absx.concrete_marker(rng, new["m"], mstyle)]
                oldc = [maps[i][old["c"][i]] for i in range(2)] + [absx.concrete_marker(rng, old["m"], mstyle)]
                oldv = [9.0, 9.0]
                ind.features['best_cost'] = list(oldc)
                ind.features['best_vector'] = oldv
                st, res = observe(alg.update_particle_best, [ind])
                replaced = list(ind.features['best_cost']) == list(ind.costs_signed) and not (list(oldc) == list(ind.costs_signed) and ind.features['best_vector'] is oldv)
                follows = (list(ind.features['best_vector']) == list(ind.vector)) if replaced else (ind.features['best_vector'] is oldv or list(ind.features['best_vector']) == oldv)
                trace.append({"ev": "best", "new": new, "old": old, "replaced": bool(replaced), "vector_follows": bool(follows),
                              "exc": "" if st == "ok" else res})
            return trace
        if case["kind"] == "leaders":
            # scripted generations: swarms with costs from small value pools (ties, duplicates, dominated chains) offered to update_global_best
            n, m = case["n"], case["m"]
            alg.options['max_population_size'] = n
            pools = [absx.monotone_map(rng, rng.randint(3, 6)) for _ in range(m)]
            trace = []
            vpool = [[rng.random() * 4, rng.random() * 4] for _ in range(rng.choice([1, 2, 3, 1000]))]
            mstyle_g = rng.randrange(3)
            for g in range(case["gens"]):
                swarm = []
                for k in range(n):
                    # particles may sit on the same design vector with different costs (noisy / stateful objectives)
                    ind = Individual(list(rng.choice(vpool)))
                    ind.costs_signed = [rng.choice(p) for p in pools] + [absx.concrete_marker(rng, rng.choice([0, 0, 0, 0, 0, 0, 1, -1, 2, -2]), mstyle_g)]
                    ind.costs = list(ind.costs_signed[:-1])
                    ind.features.update({'dominate': [], 'crowding_distance': 0, 'domination_counter': 0, 'front_number': 0})
                    swarm.append(ind)
                st, res = observe(alg.update_global_best, swarm)
                ev = {"ev": "leaders", "n": n, "members": [], "exc": "" if st == "ok" else res}
                if st == "ok":
                    ev["members"] = project_members(list(alg.leaders))
                trace.append(ev)
            return trace
        # a whole run: leaders observed after every update_global_best, personal bests after every update_particle_best
        trace = []
        orig_gb, orig_pb = alg.update_global_best, alg.update_particle_best

        def gb(swarm):
            orig_gb(swarm)
            try:
                trace.append({"ev": "leaders", "n": alg.options['max_population_size'], "members": project_members(list(alg.leaders)), "exc": ""})
            except Skip:
                pass

        def pb(population):
            for p in population:
                # one particle at a time (the method treats particles independently; PSOGA lets two particles share one feature dict)
                oc, ov = list(p.features['best_cost']), p.features['best_vector']
                orig_pb([p])
                try:
                    ranks = absx.dense_ranks([list(p.costs_signed[:-1]), oc[:-1]])
                except ValueError:
                    continue
                new = {"c": ranks[0], "m": absx.abstract_marker(p.costs_signed[-1])}
                old = {"c": ranks[1], "m": absx.abstract_marker(oc[-1])}
                replaced = p.features['best_cost'] is p.costs_signed or (list(p.features['best_cost']) == list(p.costs_signed) and list(oc) != list(p.costs_signed))
                if list(oc) == list(p.costs_signed):
                    continue          # identical costs: replacement is not observable through values
                follows = (list(p.features['best_vector']) == list(p.vector)) if replaced else (list(p.features['best_vector']) == list(ov))
                trace.append({"ev": "best", "new": new, "old": old, "replaced": bool(replaced), "vector_follows": bool(follows), "exc": ""})
        orig_init = alg.init_pbest

        def init(population):
            orig_init(population)
            for p in population:
                bc, cs = p.features['best_cost'], p.costs_signed
                ev = {"ev": "firstbest", "cur": {"c": 0, "m": 0}, "best": {"c": 0, "m": 0}, "same_length": False, "vector_same": False, "exc": ""}
                try:
                    ev["same_length"] = len(bc) == len(cs)
                    ranks = absx.dense_ranks([list(cs[:-1]), list(bc[:len(cs) - 1])])
                    ev["cur"] = {"c": ranks[0], "m": absx.abstract_marker(cs[-1])}
                    ev["best"] = {"c": ranks[1], "m": absx.abstract_marker(bc[-1])}
                    ev["vector_same"] = list(p.features['best_vector']) == list(p.vector)
                except Exception as e:      # noqa
                    ev["exc"] = "%s: %s" % (type(e).__name__, e)
                trace.append(ev)
        alg.init_pbest = init
        alg.update_global_best, alg.update_particle_best = gb, pb
        alg.run()
        trace.append({"ev": "leaders", "n": alg.options['max_population_size'], "members": project_members(list(alg.leaders)), "exc": ""})
        return trace

    def nontrivial(self, case, trace):
        return any(e["ev"] == "best" and e["new"] != e["old"] for e in trace) or any(e["ev"] == "leaders" and len(e["members"]) > 1 for e in trace)

    def key(self, case, trace, fail):
        return "swarm:%s:%s:%s" % (case["kind"], case["alg"], fail["clause"])

    def sample(self, case, trace):
        c = dict(case)
        c.pop("pairs", None)
        return {"case": c, "trace": trace[:3]}


def run(ctx, replay=None):
    return core.run_property(
        ctx, [Moves(), Bests()], level="model_checking",
        assumptions=["positions / velocities of the Move table are integers (exact in floats) on shifted and scaled boxes; SMPSO's damped velocity is "
                     "projected to the nearest rational with denominator <= 100000",
                     "cost vectors are rank-abstracted; replacement of the personal best is observed through the stored best cost / vector",
                     "leaders are observed after every update_global_best"],
        level_rule="TLC checks the particle / leader state machine (box [0,4], positions -3..7, velocities -9..9 incl. far outside, both bound "
                   "reactions, 8 (18) cost vectors, <=2 (3) generations) and the complete Move / Clamp / Best tables; the Move table (209 combinations x "
                   "3 swarm classes x 3-4 boxes), speed_constriction for 204 integer cases, update_velocity on three box classes, update_particle_best "
                   "for all 324 ordered pairs of model vectors x 3 classes, scripted leader generations with tied / duplicated / infeasible costs and "
                   "whole OMOPSO / SMPSO / PSOGA runs are executed and judged by SwarmTrace. distinct = distinct abstract traces",
        replay=replay)
