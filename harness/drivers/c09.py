"""C09 -- runs keep exact generation bookkeeping, budget and generational elitism; eps-MOEA acceptance keeps the population size.

spec: RunOps.tla (StepOK, ElitistStep, PopAcceptOK), Run.tla (NSGA-II / eps-MOEA over generations), RunTrace.tla
code: NSGAII.run, GeneticAlgorithm.generate, EpsMOEA.run, OMOPSO.run, SMPSO.run, Selector.pop_acceptance, Problem.populations
"""
from .. import absx, core, jobrec, tlc
from ..core import Part, Skip, observe
from .c02 import export_vecs
from .c06 import dynamic_registration

MC_CFG = """CONSTANTS M = %d
Vals = {%s}
Marks = {%s}
N = %d
G = %d
Mode = "%s"
SPECIFICATION Spec
INVARIANT Budget
INVARIANT Size
INVARIANT Elitism
INVARIANT Monotone
INVARIANT BudgetEps
INVARIANT BudgetSwarm
CHECK_DEADLOCK FALSE
"""


class Runs(Part):
    name = "runs"
    trace_module = "RunTrace"
    trace_shards = 8
    coverage_strict = False

    def mc(self, ctx):
        plan = [(2, "0, 1", "0, 1", 2, 3, "nsga2"), (1, "0, 1, 2", "0", 3, 3, "nsga2"), (2, "0, 1, 2", "0, 1", 2, 2, "epsmoea"),
                (2, "0, 1", "0, 1", 2, 3, "swarm")]
        if not ctx.quick:
            plan += [(2, "0, 1, 2", "0, 1", 2, 4, "nsga2"), (1, "0, 1, 2, 3", "0", 3, 4, "nsga2"), (2, "0, 1", "0, 1", 3, 4, "nsga2"), (1, "0, 1, 2, 3", "0", 3, 6, "nsga2"),
                     (2, "0, 1", "0, 1", 3, 2, "epsmoea")]
        runs = [tlc.run("Run", MC_CFG % p, ctx.scratch, workers=16, coverage=True, name="Run-mc-%d" % i, timeout=3400)
                for i, p in enumerate(plan)]
        # the suite's modules fit together: C02's ranks + any truncation C03 allows => C09's step relation and elitism (constant-level)
        runs.append(tlc.run("Compose", "CONSTANTS Vals = {0, 1, 2}\nMaxPool = %d\nINIT Init\nNEXT Next\n" % (3 if ctx.quick else 4), ctx.scratch,
                            workers=1, name="Compose", timeout=3400))
        return runs

    def cases(self, ctx):
        rng = ctx.rng
        cases = []
        for alg in ("nsga2", "nsga2", "epsmoea", "omopso", "smpso"):
            for _ in range(14 if ctx.quick else 150):
                cases.append({"alg": alg, "n": rng.randint(2, 12), "g": rng.randint(1, 6), "m": rng.randint(1, 3), "dim": rng.randint(1, 4),
                              "pfail": rng.choice([0.0, 0.0, 0.1, 0.3]), "cseed": rng.randrange(1 << 30)})
        return cases

    def run_case(self, ctx, case):
        import random as pyrandom
        import numpy as np
        pyrandom.seed(case["cseed"])
        np.random.seed(case["cseed"] % (1 << 31))
        srng = pyrandom.Random(case["cseed"] + 3)
        alg_name, n, g, m, dim = case["alg"], case["n"], case["g"], case["m"], case["dim"]

        def script(k, att, callno):
            if case["pfail"] and att < 3 and srng.random() < case["pfail"]:
                return srng.choice(list(jobrec.TRANSIENT))
            return "ok"
        # design variables on a tiny absolute scale (SI units: metres for micro-structures, farads, ...): artap's design equality is an absolute
        # 1e-10, so different designs may "coincide" -- the bookkeeping must not depend on the scale
        box = srng.choice([[-2.0, 3.0], [-2.0, 3.0], [0.0, 4e-9], [1e6, 1e6 + 5.0]]) if alg_name in ("nsga2", "epsmoea") else [-2.0, 3.0]
        rec = jobrec.Rec(dim=dim, m=m, bounds=[list(box) for _ in range(dim)], script=script, mode="serial")
        # objectives of large magnitude: better and worse designs differ only in the 9th..16th significant digit
        rec.cost_offset = srng.choice([0.0, 0.0, 0.0, 1e9, -1e6]) if alg_name in ("nsga2", "epsmoea") else 0.0
        # stepped objectives (costs in steps of 0.1 or 0.25): exact ties in single objectives between different designs
        rec.cost_quant = srng.choice([1, 1, 10 ** 8, 25 * 10 ** 7, 5 * 10 ** 8, 10 ** 9]) if alg_name in ("nsga2", "epsmoea") else 1
        dynamic_registration(rec)
        if alg_name == "nsga2":
            from artap.algorithm_NSGAII import NSGAII as A
        elif alg_name == "epsmoea":
            from artap.algorithm_genetic import EpsMOEA as A
        elif alg_name == "omopso":
            from artap.algorithm_swarm import OMOPSO as A
        else:
            from artap.algorithm_swarm import SMPSO as A
        alg = A(rec.problem)
        alg.options['max_population_number'] = g
        alg.options['max_population_size'] = n
        alg.options['verbose_level'] = 0
        accepts = []
        from artap.operators import Selector
        orig_accept = Selector.pop_acceptance
        if alg_name == "epsmoea":
            # every steady-state acceptance step of the real run is observed (population before, offspring, population after)
            def watched(self_, individuals, individual):
                before = list(individuals)
                orig_accept(self_, individuals, individual)
                accepts.append((before, individual, list(individuals)))
            Selector.pop_acceptance = watched
        try:
            st, res = observe(alg.run)
        finally:
            Selector.pop_acceptance = orig_accept
        ev = {"ev": "run", "alg": alg_name, "n": n, "g": g, "nevalok": 0, "tags": [], "gens": [], "offs": [], "single": m == 1,
              "unconstrained": True, "exc": "" if st == "ok" else res}
        if st == "exc":
            return [ev]
        # successful evaluations in order, with the design's final vector / signed costs
        ok = [e["k"] for e in rec.events if e["ev"] == "ret" and e["out"] == "ok"]
        ev["nevalok"] = len(ok)
        pops = rec.problem.populations()
        tags = sorted(pops)
        ev["tags"] = [int(t) for t in tags]
        allc = [list(map(float, i.costs_signed[:-1])) for i in rec.keep if i.costs_signed] + \
               [list(map(float, i.costs_signed[:-1])) for t in tags for i in pops[t] if i.costs_signed]
        if not allc:
            ev["exc"] = "no evaluated individual"
            return [ev]
        try:
            rank_of = rank_table(allc)
        except ValueError:
            raise Skip()

        def member(i):
            return {"v": rec.vkey(i.vector), "c": [rank_of[j][float(c)] for j, c in enumerate(i.costs_signed[:-1])],
                    "m": absx.abstract_marker(i.costs_signed[-1])}
        ev["gens"] = [[member(i) for i in pops[t]] for t in tags]
        if alg_name == "nsga2":
            chunks = [ok[i:i + n] for i in range(0, len(ok), n)]
            ev["offs"] = [[member(rec.keep[k - 1]) for k in ch] for ch in chunks]
            while len(ev["offs"]) < len(ev["gens"]):
                ev["offs"].append([])
        trace = [ev]

        def sol(i):
            # the design key is part of the record: replacing a member by an offspring with the SAME costs is a replacement, not a rejection
            return {"v": rec.vkey(i.vector), "c": [rank_of[j][float(c)] for j, c in enumerate(i.costs_signed[:-1])],
                    "m": absx.abstract_marker(i.costs_signed[-1])}
        for before, x, after in accepts[:200]:
            try:
                trace.append({"ev": "popaccept", "pop": [sol(i) for i in before], "x": sol(x), "after": [sol(i) for i in after], "exc": ""})
            except KeyError:
                continue
        return trace

    def nontrivial(self, case, trace):
        return len(trace[0]["gens"]) >= 2

    def key(self, case, trace, fail):
        return "run:%s:%s:%s" % (case["alg"], "faults" if case["pfail"] else "clean", fail["clause"])

    def sample(self, case, trace):
        e = dict(trace[0])
        e["gens"] = [g[:3] for g in e["gens"][:2]]
        e["offs"] = [g[:3] for g in e["offs"][:2]]
        return {"case": case, "trace": [e]}


def rank_table(vectors):
    m = len(vectors[0])
    out = []
    for j in range(m):
        vals = sorted({v[j] for v in vectors})
        for a, b in zip(vals, vals[1:]):
            if b - a < 1e-12 * max(1.0, abs(a), abs(b)):
                raise ValueError
        out.append({v: i for i, v in enumerate(vals)})
    return out


class PopAccept(Part):
    name = "pop-acceptance"
    trace_module = "RunTrace"
    trace_shards = 8

    def cases(self, ctx):
        rng = ctx.rng
        vecs = export_vecs(ctx, 2)
        cases = []
        for size in (1, 2, 3, 5):
            for _ in range(250 if ctx.quick else 4000):
                pop = [rng.choice(vecs) for _ in range(size)]
                cases.append({"pop": pop, "x": rng.choice(vecs), "cseed": rng.randrange(1 << 30)})
        return cases

    def run_case(self, ctx, case):
        import random as pyrandom
        from artap.individual import Individual
        from artap.operators import TournamentSelector
        rng = pyrandom.Random(case["cseed"])
        maps = [absx.monotone_map(rng, 3) for _ in range(2)]
        mstyle = rng.randrange(3)

        def mk(v, k):
            ind = Individual([float(k), 0.5])
            ind.costs_signed = [maps[i][v["c"][i]] for i in range(2)] + [absx.concrete_marker(rng, v["m"], mstyle)]
            return ind
        trace = []
        size = len(case["pop"])
        # every outcome of random.choice is forced in turn
        for j in range(max(1, size)):
            inds = [mk(v, k) for k, v in enumerate(case["pop"])]
            x = mk(case["x"], 99)
            proj = {id(i): v for i, v in zip(inds, case["pop"])}
            proj[id(x)] = case["x"]
            orig = pyrandom.choice
            pyrandom.choice = lambda seq, _j=j: seq[_j % len(seq)]
            try:
                st, res = observe(TournamentSelector([]).pop_acceptance, inds, x)
            finally:
                pyrandom.choice = orig
            trace.append({"ev": "popaccept", "pop": case["pop"], "x": case["x"], "after": [proj.get(id(i), {"c": [9, 9], "m": 9}) for i in inds],
                          "exc": "" if st == "ok" else res})
        return trace

    def nontrivial(self, case, trace):
        return any(e["after"] != e["pop"] for e in trace)

    def key(self, case, trace, fail):
        return "popaccept:%s" % fail["clause"]


def run(ctx, replay=None):
    return core.run_property(
        ctx, [Runs(), PopAccept()], level="model_checking",
        assumptions=["designs are identified by their exact vector (a parent copy is the same design as its parent); the objective is the hash-based "
                     "deterministic fixed-point function, so equal designs have equal costs; costs are rank-abstracted over the whole run",
                     "offspring of NSGA-II generation t are the successful evaluations (t-1)N+1 .. tN of the objective call log",
                     "generation bookkeeping of OMOPSO / SMPSO / eps-MOEA is judged on tags, sizes and budget only (their step relations are "
                     "covered by C18 / the acceptance table)"],
        level_rule="TLC checks budget, size, elitism and best-cost monotonicity of the bag-based NSGA-II model (N = 2 over 8 (18) vectors, N = 3 single "
                   "objective, G = 4 (6)) and the eps-MOEA acceptance model; real runs of NSGA-II, eps-MOEA, OMOPSO, SMPSO with N 2..12, G 1..6, 1-3 "
                   "objectives, 1-4 parameters, with and without transient failures are recorded (objective call log + Problem.populations()) and judged "
                   "by RunTrace incl. the full NSGA-II step relation; pop_acceptance is run on sampled populations of the model's 18 vectors with "
                   "every random.choice outcome forced. non-trivial = at least two generations / population changed",
        replay=replay)
