"""C05 -- each design is evaluated exactly once and stored costs belong to its vector; signed costs; sweep; scalar bridges.

spec: Job.tla (serial / parallel evaluation, repeated batches), JobGen.tla, JobTrace.tla
code: Job.evaluate, Evaluator.evaluate_serial/parallel/evaluate_scalar, Individual.calc_signed_costs, SweepAlgorithm, ScipyOpt, NLopt
"""
import json

from .. import core, jobrec, tlc
from ..core import Part, Skip, observe

MC_CFG = """CONSTANTS NDesigns = %d
NWorkers = %d
MaxAttempts = 5
Faults = {%s}
Mode = "%s"
Repeats = %d
SPECIFICATION Spec
INVARIANT NeverOnEvaluated
INVARIANT AttemptBound
INVARIANT FailedAccounting
INVARIANT CallAccounting
INVARIANT Pairing
INVARIANT FailedAreOld
INVARIANT RowsFinal
INVARIANT SerialEquivalent
INVARIANT ExactlyOnceNoFaults
INVARIANT RaiseLaw
INVARIANT NotMarkedOnFatal
INVARIANT LockExclusive
CHECK_DEADLOCK FALSE
"""
GEN_CFG = """CONSTANTS NDesigns = %d
NWorkers = %d
MaxAttempts = 5
Faults = {%s}
Mode = "%s"
Repeats = %d
INIT GInit
NEXT GNext
INVARIANT EmitQuiet
CHECK_DEADLOCK FALSE
"""
LIVE_CFG = """CONSTANTS NDesigns = 3
NWorkers = 2
MaxAttempts = 5
Faults = {}
Mode = "parallel"
Repeats = 1
SPECIFICATION FairSpec
PROPERTY Finishes
CHECK_DEADLOCK FALSE
"""


def behaviours(ctx, ndesigns, nworkers, faults, mode, repeats, name, simulate=None, cap=None):
    r = tlc.run("JobGen", GEN_CFG % (ndesigns, nworkers, faults, mode, repeats), ctx.scratch, workers=1 if simulate else 4,
                simulate=simulate, depth=200 if simulate else None, seed=ctx.seed + 3, name=name, timeout=1800)
    seen, out = set(), []
    for b in r.printed("BEH"):
        if b[1] not in seen:
            seen.add(b[1])
            out.append(json.loads(b[1]))
    if not out:
        raise tlc.MachineryError("JobGen emitted no behaviours for " + name)
    if cap and len(out) > cap:
        out = ctx.rng.sample(out, cap)
    return out


class Batch(Part):
    """fault-free batches: any mix of new and already evaluated designs, repeated evaluation, serial and threaded"""
    name = "batches"
    trace_module = "JobTrace"

    def mc(self, ctx):
        runs = []
        for nd, nw, mode, rep in ((3, 1, "serial", 3), (3, 2, "parallel", 2)) if ctx.quick else \
                ((4, 1, "serial", 3), (4, 2, "parallel", 2), (4, 3, "parallel", 2)):
            runs.append(tlc.run("Job", MC_CFG % (nd, nw, "", mode, rep), ctx.scratch, workers=8, coverage=True,
                                name="Job-mc-%s-%d" % (mode, nd), timeout=2400))
        runs.append(tlc.run("Job", LIVE_CFG, ctx.scratch, workers=4, name="Job-liveness", timeout=1200))
        return runs
    coverage_strict = False

    def cases(self, ctx):
        rng = ctx.rng
        cases = []
        # spec -> code: every initial mix of new / evaluated designs x repeats, from the model
        for nd in (1, 2, 3, 4):
            pres = {}
            for b in behaviours(ctx, nd, 1, "", "serial", 3, "JobGen-serial-%d" % nd):
                pres[tuple(b["pre"])] = b
            for b in pres.values():
                for variant in range(2 if ctx.quick else 6):
                    cases.append({"kind": "beh", "pre": b["pre"], "rounds": 3, "workers": 1,
                                  "cseed": rng.randrange(1 << 30)})
        for nd in (2, 3):
            pres = {}
            for b in behaviours(ctx, nd, 2, "", "parallel", 2, "JobGen-par-%d" % nd):
                pres[tuple(b["pre"])] = b
            for b in pres.values():
                cases.append({"kind": "beh", "pre": b["pre"], "rounds": 2, "workers": 2, "cseed": rng.randrange(1 << 30)})
        # code -> spec: larger random batches
        for _ in range(60 if ctx.quick else 800):
            n = rng.randint(1, 25)
            cases.append({"kind": "beh", "pre": [rng.random() < 0.3 for _ in range(n)], "rounds": rng.randint(1, 3),
                          "workers": rng.choice([1, 1, 2, 3]), "flaky": rng.random() < 0.35, "cseed": rng.randrange(1 << 30)})
        # histories: an earlier evaluation of the (larger) batch was aborted by an unexpected exception of the objective; the designs it never
        # reached are still to be evaluated, exactly once each, by the next call
        for _ in range(24 if ctx.quick else 300):
            n = rng.randint(3, 12)
            cases.append({"kind": "aborted", "pre": [rng.random() < 0.2 for _ in range(n)], "rounds": 1, "abort_at": rng.randint(1, n),
                          "workers": rng.choice([1, 1, 2]), "cseed": rng.randrange(1 << 30)})
        return cases

    def run_case(self, ctx, case):
        import random as pyrandom
        rng = pyrandom.Random(case["cseed"])
        n = len(case["pre"])
        dim = rng.randint(1, 3)
        m = rng.randint(1, 3)
        criteria = [rng.choice(["minimize", "maximize", "maximize", None]) for _ in range(m)]
        workers = case["workers"]
        # a third of the batches also meet a few transient failures (<= 2 in a row): the stored costs, signs and the
        # feasibility marker must then describe the finally stored (re-sampled) vector
        flaky = case.get("flaky", False)
        srng = pyrandom.Random(case["cseed"] + 1)
        script = (lambda k, att, callno: ("timeout" if srng.random() < 0.5 else "runtime")
                  if (att < 2 and srng.random() < 0.3) else "ok") if flaky else None
        rec = jobrec.Rec(dim=dim, m=m, criteria=criteria, constrained=rng.random() < 0.5, script=script,
                         mode="serial" if workers == 1 else "parallel", workers=workers)
        vectors = [[round(rng.uniform(-5, 5), 6) for _ in range(dim)] for _ in range(n)]
        for v in vectors:
            if rng.random() < 0.25:
                v[:] = [rng.randint(-5, 5) for _ in v]          # designs given with Python ints (grids, hand-written start points)
        precs = [rng.choice([7, 7, 7, 3, 5, 8, 0, 1]) for _ in range(n)]
        rec.new_batch(vectors, pre=case["pre"], precisions=precs)
        if case["kind"] == "aborted":
            from artap.individual import Individual
            count = [0]
            rec.script = lambda k, att, callno: "value" if count.__setitem__(0, count[0] + 1) or count[0] == case["abort_at"] else "ok"
            jobrec.evaluate_batch(rec, workers=workers)             # ends with the ValueError (or completes, if the batch is shorter)
            if workers > 1:
                jobrec.quiesce(rec, timeout=3.0)
            rec.script = lambda k, att, callno: "ok"
            # the design whose objective raised is left out (what becomes of it is not this property's business); everything else is
            # handed to evaluate() again, in a new recording
            rec.rebatch([i for i in rec.inds if i.state in (Individual.State.EMPTY, Individual.State.EVALUATED)])
        exc = jobrec.evaluate_batch(rec, workers=workers, rounds=case["rounds"])
        rec.end_event(exc)
        return rec.events + rec.signed_events()

    def nontrivial(self, case, trace):
        return not all(case["pre"])

    def key(self, case, trace, fail):
        e = trace[fail["event"] - 1] if fail["event"] > 0 else {}
        return "batch:%s:%s" % (e.get("ev", "?"), fail["clause"])

    def sample(self, case, trace):
        return {"case": case, "trace": trace[:5]}


class Sweep(Part):
    name = "sweep"
    trace_module = "JobTrace"

    def cases(self, ctx):
        rng = ctx.rng
        return [{"gen": rng.choice(["custom", "uniform", "lhs", "random", "halton"]), "n": rng.randint(1, 9),
                 "dim": rng.randint(1, 3), "cseed": rng.randrange(1 << 30)} for _ in range(40 if ctx.quick else 400)]

    def run_case(self, ctx, case):
        import random as pyrandom
        import numpy as np
        from artap.algorithm_sweep import SweepAlgorithm
        from artap.operators import CustomGenerator, HaltonGenerator, LHSGenerator, RandomGenerator, UniformGenerator
        rng = pyrandom.Random(case["cseed"])
        pyrandom.seed(case["cseed"])
        np.random.seed(case["cseed"] % (1 << 31))
        dim, n = case["dim"], case["n"]
        rec = jobrec.Rec(dim=dim, m=1)
        params = rec.problem.parameters
        if case["gen"] == "custom":
            g = CustomGenerator(params)
            g.init([[round(rng.uniform(-5, 5), 5) for _ in range(dim)] for _ in range(n)])
        elif case["gen"] == "uniform":
            g = UniformGenerator(params)
            g.init(max(2, min(n, 4)))
        elif case["gen"] == "lhs":
            g = LHSGenerator(params)
            g.init(n)
        elif case["gen"] == "halton":
            g = HaltonGenerator(params)
            g.init(n)
        else:
            g = RandomGenerator(params)
            g.init(n)
        produced = []
        orig = g.generate

        def generate():
            vs = orig()
            produced.extend([list(map(float, v)) for v in vs])
            return vs
        g.generate = generate
        npre = 0
        if rng.random() < 0.35:
            # the problem already holds designs of its own (a registered candidate not evaluated yet, a point of an earlier run):
            # the sweep evaluates exactly the generator's designs
            from artap.individual import Individual
            for _ in range(rng.randint(1, 2)):
                rec.problem.individuals.append(Individual([round(rng.uniform(-5, 5), 5) for _ in range(dim)]))
                npre += 1
        alg = SweepAlgorithm(rec.problem, generator=g)
        alg.options['verbose_level'] = 0
        alg.run()
        calls = [e["v"] for e in rec.events if e["ev"] == "call"]
        gen = [rec.vkey(v) for v in produced]
        recorded = [rec.vkey(i.vector) for i in rec.problem.individuals[npre:]]
        return [{"ev": "sweep", "gen": gen, "calls": calls, "recorded": recorded}]

    def key(self, case, trace, fail):
        return "sweep:%s:%s" % (case["gen"], fail["clause"])


class Scalar(Part):
    """wrapped scalar optimisers: every queried point is recorded with its true cost, the optimiser gets the signed cost"""
    name = "scalar"
    trace_module = "JobTrace"

    def cases(self, ctx):
        rng = ctx.rng
        out = []
        for _ in range(24 if ctx.quick else 200):
            out.append({"lib": rng.choice(["scipy-Nelder-Mead", "scipy-Powell", "nlopt-bobyqa", "nlopt-neldermead", "nlopt-cobyla"]),
                        "criteria": rng.choice(["minimize", "maximize"]), "dim": rng.randint(1, 3),
                        "iters": rng.randint(3, 15), "prec": rng.choice([7, 7, 3, 5]), "cseed": rng.randrange(1 << 30)})
        return out

    def run_case(self, ctx, case):
        import random as pyrandom
        rng = pyrandom.Random(case["cseed"])
        dim = case["dim"]
        rec = jobrec.Rec(dim=dim, m=1, criteria=[case["criteria"]], bounds=[[-2.0, 2.0]] * dim)
        for p in rec.problem.parameters:
            p['initial_value'] = round(rng.uniform(-1, 1), 3)
        sign = 1 if case["criteria"] == "minimize" else -1
        queries = []
        if case["lib"].startswith("scipy"):
            from artap.algorithm_scipy import ScipyOpt
            alg = ScipyOpt(rec.problem)
            alg.options['algorithm'] = case["lib"].split("-", 1)[1]
        else:
            import artap.algorithm_nlopt as an
            alg = an.NLopt(rec.problem)
            alg.options['algorithm'] = {"bobyqa": an.LN_BOBYQA, "neldermead": an.LN_NELDERMEAD, "cobyla": an.LN_COBYLA}[case["lib"].split("-")[1]]
        alg.options['n_iterations'] = case["iters"]
        alg.options['verbose_level'] = 0
        # observed where the optimiser gets its value: SciPy is handed evaluator.evaluate_scalar itself, NLopt the wrapper's _function
        if case["lib"].startswith("scipy"):
            ev = alg.evaluator
            orig = ev.evaluate_scalar

            def wrapped(x):
                r = orig(x)
                queries.append((list(map(float, x)), float(r)))
                return r
            ev.evaluate_scalar = wrapped
        else:
            origf = alg._function

            def spy(x, grad):
                r = origf(x, grad)
                queries.append((list(map(float, x)), float(r)))
                return r
            alg._function = spy
        alg.run()
        if not queries:
            raise Skip()
        inds = rec.problem.individuals
        trace = []
        for qi, (x, returned) in enumerate(queries):
            true = jobrec.fp_costs(x, 1)[0]
            ind = inds[qi] if qi < len(inds) else None
            recorded = int(round(ind.costs[0] * 1e9)) if ind is not None and ind.costs and list(map(float, ind.vector)) == x else -1
            trace.append({"ev": "scalar", "true": true, "sign": sign, "prec": 7, "returned": int(round(returned * 1e9)),
                          "recorded": recorded, "nrecorded": len(inds), "nqueries": len(queries)})
        return trace

    def key(self, case, trace, fail):
        return "scalar:%s:%s" % (case["lib"].split("-")[0], fail["clause"])


def run(ctx, replay=None):
    return core.run_property(
        ctx, [Batch(), Sweep(), Scalar()], level="model_checking",
        assumptions=["the objective is a deterministic fixed-point function of the vector (9 decimals, never an exact rounding half), so "
                     "'costs belong to vector v' is decided by exact equality with F(v)",
                     "designs are identified by object identity, vectors by exact tuple; events are ordered by a sequence number under one lock"],
        level_rule="TLC enumerates every initial mix of new / evaluated designs for batches of <=4 (x repeated evaluation, serial and 2 workers); "
                   "each becomes a batch of real Individuals (random dimension, 1-3 objectives, min/max, constraints, precisions) evaluated by "
                   "Algorithm.evaluate; larger random batches, sweeps over 5 generators and SciPy/NLopt runs are recorded too; every event is "
                   "validated by JobTrace. non-trivial = at least one new design; distinct = distinct abstract traces",
        replay=replay)
