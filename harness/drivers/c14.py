"""C14 -- worst-case and gradient evaluators compute what they promise, stably over any number of batches.

spec: RobustEval.tla (work lists; named deviation NoReset), RobustTrace.tla
code: artap.operators.WorstCaseEvaluator / GradientEvaluator through Algorithm.evaluate and whole runs
"""
import hashlib
import struct

from .. import absx, core, tlc
from ..core import Part, Skip, observe
from ..tlc import MachineryError

MC_CFG = """CONSTANTS NParams = %d
UserM = %d
MaxBatches = %d
BatchSizes = {1, 2, 3}
ResetLists = %s
Kind = "%s"
SPECIFICATION Spec
INVARIANT CostLen
INVARIANT ProcessedOnce
INVARIANT Children
INVARIANT CallBudget
CHECK_DEADLOCK FALSE
"""
TOLS = [0.25, 0.5, 0.125, 1.0]


def fint(vector, j):
    """integer-valued user objective on the lattice (hash of the exact floats): |f| <= 1000"""
    h = hashlib.sha1(struct.pack("<%dd" % len(vector), *[float(x) for x in vector]) + bytes([j])).digest()
    return int.from_bytes(h[:2], "little") % 2001 - 1000


class Robust(Part):
    name = "batches"
    trace_module = "RobustTrace"

    def mc(self, ctx):
        runs = []
        for kind in ("worstcase", "gradient"):
            for n, um in ((1, 1), (2, 1), (2, 2), (3, 1)):
                runs.append(tlc.run("RobustEval", MC_CFG % (n, um, 4 if ctx.quick else 6, "TRUE", kind), ctx.scratch, workers=2,
                                    coverage=True, name="RobustEval-%s-%d-%d" % (kind, n, um)))
        # non-vacuity: the named deviation NoReset (the pinned tree's behaviour before the fix) must violate CostLen
        try:
            r = tlc.run("RobustEval", MC_CFG % (2, 1, 3, "FALSE", "worstcase"), ctx.scratch, workers=1, name="RobustEval-noreset")
        except MachineryError:
            raise
        if r.violated != "CostLen":
            raise MachineryError("the NoReset deviation no longer violates CostLen: the model has lost its teeth")
        # TLAPS side-car (not the deciding mechanism): with the reset the cost-vector law is inductive for any number of batches and designs
        tlc.sidecar(ctx, "tlapm proofs/RobustLaws.tla (reset keeps 'UserM + 1 costs, processed once' inductive; without the reset the "
                    "invariant breaks)", tlc.tlapm, "proofs/RobustLaws.tla", ctx.scratch)
        return runs

    def cases(self, ctx):
        rng = ctx.rng
        cases = []
        shapes = [[1], [2], [1, 1], [2, 1], [1, 2, 1], [3, 1, 2], [1, 1, 1, 1], [2, 3, 1, 2]]
        if not ctx.quick:
            shapes += [[4, 4], [1, 5, 1, 5], [2, 2, 2, 2, 2, 2], [6], [3, 3, 3]]
        for kind in ("worstcase", "gradient"):
            for n in ((1, 2, 3) if ctx.quick else (1, 2, 3, 4, 5)):
                for um in ((1, 2) if ctx.quick else (1, 2, 3)):
                  for rep in range(1 if ctx.quick else 4):
                    for sizes in shapes:
                        if ctx.quick and rng.random() < 0.35:
                            continue
                        twins = rng.random() < 0.3
                        # a parameter pinned by degenerate bounds (lb == ub) is an ordinary configuration: it still has its axis
                        pinned = rng.randrange(n) if rng.random() < 0.3 else None
                        cases.append({"kind": kind, "n": n, "userm": um, "sizes": sizes, "run": None, "twins": twins, "pinned": pinned,
                                      "faulty": (not twins) and rng.random() < 0.35, "cseed": rng.randrange(1 << 30)})
        for _ in range(6 if ctx.quick else 250):
            cases.append({"kind": "worstcase", "n": rng.randint(1, 3), "userm": rng.randint(1, 2), "sizes": None,
                          "run": rng.choice(["nsga2", "epsmoea", "omopso", "smpso"]), "pop": rng.randint(2, 5), "gens": rng.randint(2, 4),
                          "cseed": rng.randrange(1 << 30)})
        return cases

    def run_case(self, ctx, case):
        import random as pyrandom
        from artap.algorithm import DummyAlgorithm, EvaluatorType
        from artap.individual import Individual
        rng = pyrandom.Random(case["cseed"])
        pyrandom.seed(case["cseed"])
        n, um, kind = case["n"], case["userm"], case["kind"]
        tols = [rng.choice(TOLS) for _ in range(n)]
        if kind == "worstcase" and n >= 2 and rng.random() < 0.25:
            tols[rng.randrange(n)] = 0.0        # a declared tolerance of exactly 0: that parameter's two neighbours coincide with the design
        coef = [rng.randint(1, 9) for _ in range(n)]
        # the unit of the objective: 1, or 2**-20 (a quantity in SI units, ~1e-6): every cost is an exact binary multiple of it, so the
        # sensitivity -- a sum of absolute differences of COSTS -- is one too; only the signed copy is rounded to the declared precision
        S = 2.0 ** -20 if (kind == "worstcase" and case.get("run") is None and case["cseed"] % 3 == 0) else 1.0

        def units(v, nearest=False):
            q = float(v) / S
            return int(round(q)) if (nearest or abs(q - round(q)) < 1e-6) else -77777
        calls = {}
        lock_vectors = {}

        failing = {}                    # vector -> remaining scripted transient failures (the design itself, not its neighbours)

        def f(ind):
            t = tuple(float(x) for x in ind.vector)
            if failing.get(t, 0) > 0:
                failing[t] -= 1
                raise TimeoutError("scripted transient failure")
            calls[t] = calls.get(t, 0) + 1
            if kind == "gradient":
                first = sum(c * x * x for c, x in zip(coef, ind.vector))
                return [first] + [float(fint(ind.vector, j)) for j in range(1, um)]
            return [S * float(fint(ind.vector, j)) for j in range(um)]
        costs = [{'name': 'f_%d' % (j + 1), 'criteria': rng.choice(['minimize', 'maximize']) if j else 'minimize'} for j in range(um)]
        bounds = [[-20.0, 20.0] for _ in range(n)]
        pinned = case.get("pinned")
        if pinned is not None:
            pin = rng.randint(-18, 18) * 0.5 if kind == "gradient" else (rng.randint(-int(18 / tols[pinned]), int(18 / tols[pinned])) * tols[pinned] if tols[pinned] else rng.randint(-36, 36) * 0.5)
            bounds[pinned] = [pin, pin]
        problem = absx.make_problem(n, bounds=bounds, costs=costs, evaluate=f)
        for p, t in zip(problem.parameters, tols):
            p['tol'] = t
        etype = EvaluatorType.WORST_CASE if kind == "worstcase" else EvaluatorType.GRADIENT
        seen = []                       # all designs handed to evaluate so far (strong refs)
        trace = []

        def displacement(x, ch, run=False):
            disp = []
            zero_slots = [(i + 1, sg) for i, t in enumerate(tols) if kind == "worstcase" and t == 0.0 for sg in (-1, 1)]
            step = tols if kind == "worstcase" else [1e-4] * n
            for c in ch:
                d = [float(a) - b for a, b in zip(c.vector, x)]
                nz = [i for i, v in enumerate(d) if v != 0.0]
                if not nz and zero_slots:
                    ax, sg = zero_slots.pop(0)          # a neighbour that coincides with the design: one of the zero-tolerance slots
                    disp.append({"axis": ax, "sign": sg, "ok": True})
                    continue
                ok = len(nz) == 1 and abs(abs(d[nz[0]]) - step[nz[0]]) <= (1e-9 if run else 1e-12)
                disp.append({"axis": (nz[0] + 1) if nz else 0, "sign": (1 if d[nz[0]] > 0 else -1) if nz else 0, "ok": bool(ok)})
            return disp

        def snapshot(new, exc=""):
            designs = []
            for k, ind in enumerate(seen):
                x = [float(v) for v in ind.vector]
                ch = list(ind.children)
                disp = displacement(x, ch)
                vecs = {tuple(x)} | {tuple(float(v) for v in c.vector) for c in ch}      # neighbours that coincide with the design share its calls
                ncalls = sum(calls.get(v, 0) for v in vecs)
                # designs that repeat the coordinates of another design share their vectors: split the calls evenly
                mult = sum(1 for other in seen if [float(v) for v in other.vector] == x)
                ncalls = ncalls // mult if ncalls % mult == 0 else -1
                rec = {"k": k + 1, "new": ind in new, "costlen": len(ind.costs), "signedlen": len(ind.costs_signed),
                       "calls": ncalls, "disp": disp, "f": 0, "fc": [], "childcosts": [], "sens": 0, "sensfeature": 0, "signedsens": 0,
                       "quot": [], "coef": coef, "x2": [int(round(2 * v)) for v in x], "gradlen": 0}
                if kind == "worstcase":
                    rec["f"] = fint(x, 0)
                    rec["fc"] = [fint(c.vector, 0) for c in ch]
                    rec["childcosts"] = [units(c.costs[0]) if c.costs else -99999 for c in ch]
                    rec["sens"] = units(ind.costs[-1]) if len(ind.costs) > um else -1
                    rec["sensfeature"] = units(ind.features['sensitivity']) if 'sensitivity' in ind.features else -1
                    rec["signedsens"] = units(ind.costs_signed[-2], nearest=True) if len(ind.costs_signed) >= 2 else -1
                else:
                    g = ind.features.get('gradient')
                    rec["gradlen"] = len(g) if g is not None else 0
                    rec["quot"] = [int(round(float(v) * 1e4)) for v in g] if g is not None else []
                    if g is not None and any(abs(float(v) * 1e4 - round(float(v) * 1e4)) > 1e-3 for v in g):
                        rec["quot"] = [-1] * len(rec["quot"])
                designs.append(rec)
            trace.append({"ev": "batch", "kind": kind, "nparams": n, "userm": um, "designs": designs, "exc": exc})

        intvec = [rng.random() < 0.4]
        arrayvec = [rng.random() < 0.35]

        def lattice_vector():
            if kind == "gradient":
                v = [rng.randint(-18, 18) * 0.5 for _ in range(n)] if not intvec[0] or rng.random() < 0.3 else [float(rng.randint(-9, 9)) for _ in range(n)]
            else:
                v = [(rng.randint(-int(18 / t), int(18 / t)) * t) if t else rng.randint(-36, 36) * 0.5 for t in tols]
            if pinned is not None:
                v[pinned] = pin
            if intvec[0] and all(float(c) == int(c) for c in v):
                v = [int(c) for c in v]         # designs given with Python ints (hand-written start points, integer grids)
            elif intvec[0] and rng.random() < 0.5:
                v = [int(c) if float(c) == int(c) else c for c in v]
            return v

        if case.get("faulty") and kind == "gradient":
            case["faulty"] = False          # the gradient identity needs lattice vectors; re-sampled designs are arbitrary floats
        if case["run"] is None:
            alg = DummyAlgorithm.__new__(DummyAlgorithm)
            from artap.algorithm import Algorithm
            Algorithm.__init__(alg, problem, "Dummy", etype)
            alg.options['verbose_level'] = 0
            used = set()
            for size in case["sizes"]:
                batch = []
                tries = 0
                while len(batch) < size:
                    tries += 1
                    if tries > 2000:
                        raise Skip()
                    v = lattice_vector()
                    # keep designs and their neighbours apart so that objective calls can be attributed to one design
                    hood = {tuple(v)}
                    for i in range(n if kind == "worstcase" else 0):
                        for sgn in (-1, 1):
                            w = list(v)
                            w[i] += sgn * tols[i]
                            hood.add(tuple(w))
                    if hood & used:
                        continue
                    used |= hood
                    if arrayvec[0] and not intvec[0]:
                        import numpy as np
                        batch.append(Individual(np.array(v, dtype=float)))      # designs held as numpy arrays (CMA-ES / CEM rows, array-based generators)
                    else:
                        batch.append(Individual(v))
                    if case.get("faulty") and rng.random() < 0.4:
                        failing[tuple(v)] = rng.randint(1, 2)      # this design is re-sampled once or twice before it is evaluated
                    if case.get("twins") and len(batch) < size and rng.random() < 0.5:
                        batch.append(Individual(list(v)))      # a second design object with the same coordinates
                seen.extend(batch)
                st, res = observe(alg.evaluate, batch)
                snapshot(batch, "" if st == "ok" else res)
            return trace
        # whole algorithm run with the worst-case evaluator
        if case["run"] == "nsga2":
            from artap.algorithm_NSGAII import NSGAII as A
        elif case["run"] == "omopso":
            from artap.algorithm_swarm import OMOPSO as A
        elif case["run"] == "smpso":
            from artap.algorithm_swarm import SMPSO as A
        else:
            from artap.algorithm_genetic import EpsMOEA as A
        if case["run"] in ("omopso", "smpso"):
            # the swarm constructors take no evaluator type: the evaluator is attached the way artap's own gradient test does it
            from artap.operators import WorstCaseEvaluator
            alg = A(problem)
            alg.evaluator = WorstCaseEvaluator(alg)
        else:
            alg = A(problem, evaluator_type=etype)
        alg.options['max_population_number'] = case["gens"]
        alg.options['max_population_size'] = case["pop"]
        alg.options['verbose_level'] = 0
        ev = alg.evaluator
        orig = ev.evaluate

        def wrapped(individuals):
            orig(individuals)
            new = [i for i in individuals if not any(i is s for s in seen)]
            seen.extend(new)
            snapshot_run(new)
        # in a run vectors are arbitrary floats: the exact sum is formed from the recorded neighbour costs themselves
        def snapshot_run(new):
            designs = []
            for k, ind in enumerate(seen):
                ch = list(ind.children)
                x = [float(v) for v in ind.vector]
                disp = displacement(x, ch, run=True)
                rec = {"k": k + 1, "new": any(ind is i for i in new), "costlen": len(ind.costs), "signedlen": len(ind.costs_signed),
                       "calls": 1 + 2 * n, "disp": disp, "f": fint(x, 0), "fc": [fint(c.vector, 0) for c in ch],
                       "childcosts": [int(round(c.costs[0])) if c.costs else -99999 for c in ch],
                       "sens": int(round(ind.costs[-1])) if len(ind.costs) > um else -1,
                       "sensfeature": int(round(ind.features.get('sensitivity', -1))),
                       "signedsens": int(round(ind.costs_signed[-2])) if len(ind.costs_signed) >= 2 else -1,
                       "quot": [], "coef": coef, "x2": [0] * n, "gradlen": 0}
                designs.append(rec)
            trace.append({"ev": "batch", "kind": kind, "nparams": n, "userm": um, "designs": designs, "exc": ""})
        ev.evaluate = wrapped
        alg.run()
        if not trace:
            raise Skip()
        return trace

    def nontrivial(self, case, trace):
        return len(trace) >= 2

    def key(self, case, trace, fail):
        later = fail["event"] > 1
        return "robust:%s:%s:%s" % (case["kind"], "later-batch" if later else "first-batch", fail["clause"])

    def sample(self, case, trace):
        t = [dict(e, designs=e["designs"][:2]) for e in trace[:2]]
        return {"case": case, "trace": t}


def run(ctx, replay=None):
    return core.run_property(
        ctx, [Robust()], level="model_checking",
        assumptions=["user objectives are integer valued on a lattice of binary-fraction coordinates (tolerances 1/8..1), so sums of absolute "
                     "differences are exact; the gradient case uses f = sum c_i x_i^2 on half-integers, whose forward difference with step 1e-4 "
                     "is the integer c_i (2 x_i 1e4 + 1) in units of 1e-4 (a central difference would give a different integer)",
                     "objective calls are attributed to a design through the exact vectors of the design and of its neighbours"],
        level_rule="TLC checks the work-list model for 1-3 parameters, 1-2 user objectives and up to 4 (6) batches of 1-3 designs, and that the named "
                   "deviation NoReset violates CostLen; sequences of 1-4 batches are evaluated through Algorithm.evaluate with both evaluators and "
                   "whole NSGA-II / eps-MOEA runs with the worst-case evaluator; after EVERY batch all designs seen so far are validated by "
                   "RobustTrace. non-trivial = at least two batches; distinct = distinct abstract traces",
        replay=replay)
