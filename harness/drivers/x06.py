"""X06 (extension, not a listed property) -- several algorithm runs on one problem object and the population queries of Problem.

spec: ProblemRuns.tla (append-only tagged list; queries as functions of the tags; named deviations GenerationsMergeAcrossRuns with the
      refuted invariant LastIsOfLatestRun, SweepIsUntagged, CarriedCopiesUntagged, AnonymousRun), ProblemRunsTrace.tla
code: artap.problem.Problem.populations / population / last_population, the run() methods of NSGAII, EpsMOEA, OMOPSO, SMPSO, PSOGA,
      SweepAlgorithm (population_id / algorithm_id tagging)
"""
from .. import absx, core, tlc
from ..core import Part, observe

MC_CFG = """CONSTANTS MaxRuns = %d
MaxGen = %d
MaxPer = %d
SPECIFICATION Spec
INVARIANT Partition
INVARIANT LastNonEmpty
INVARIANT OwnTagsContiguous
PROPERTY AppendOnly
CHECK_DEADLOCK FALSE
"""
ALGS = ["nsga2", "epsmoea", "omopso", "smpso", "psoga", "sweep"]


class Runs(Part):
    name = "runs"
    trace_module = "ProblemRunsTrace"
    trace_cfg = "CONSTANTS MaxRuns = 1000\nMaxGen = 1000\nMaxPer = 1000\n" + core.TRACE_CFG
    coverage_strict = False

    def mc(self, ctx):
        runs = [tlc.run("ProblemRuns", MC_CFG % ((2, 2, 2) if ctx.quick else (3, 2, 2)), ctx.scratch, workers=8, coverage=True,
                        name="ProblemRuns-mc", timeout=3000)]
        # named deviation GenerationsMergeAcrossRuns: the invariant a reader would expect must be refuted (the model keeps its teeth)
        r = tlc.run("ProblemRuns", MC_CFG.replace("INVARIANT LastNonEmpty", "INVARIANT LastIsOfLatestRun") % (2, 2, 1), ctx.scratch,
                    workers=4, name="ProblemRuns-latest")
        if r.violated != "LastIsOfLatestRun":
            raise tlc.MachineryError("LastIsOfLatestRun is no longer refuted (got %s)" % r.violated)
        return runs

    def cases(self, ctx):
        rng = ctx.rng
        cases = []
        # every ordered pair of algorithms (the second run shorter, as long, longer than the first), and random sequences of three or four
        for a in ALGS:
            for b in ALGS:
                for rel in (-1, 0, 1):
                    g1 = rng.randint(2, 3)
                    cases.append({"runs": [{"alg": a, "g": g1, "n": rng.randint(2, 4)}, {"alg": b, "g": max(1, g1 + rel), "n": rng.randint(2, 4)}],
                                  "cseed": rng.randrange(1 << 30)})
        for _ in range(20 if ctx.quick else 300):
            cases.append({"runs": [{"alg": rng.choice(ALGS), "g": rng.randint(1, 4), "n": rng.randint(2, 5)} for _ in range(rng.randint(3, 4))],
                          "cseed": rng.randrange(1 << 30)})
        return cases

    def run_case(self, ctx, case):
        import random as pyrandom
        import numpy as np
        rng = pyrandom.Random(case["cseed"])
        pyrandom.seed(case["cseed"])
        np.random.seed(case["cseed"] % (1 << 31))
        problem = absx.make_problem(2, bounds=[[-2.0, 2.0], [0.0, 1.0]],
                                    costs=[{'name': 'f_1', 'criteria': 'minimize'}, {'name': 'f_2', 'criteria': 'minimize'}],
                                    evaluate=lambda ind: [ind.vector[0] ** 2 + ind.vector[1], (ind.vector[0] - 1.0) ** 2 + ind.vector[1]])
        for p in problem.parameters:
            p['initial_value'] = 0.3
        algids = {}
        trace = []
        for runno, r in enumerate(case["runs"], 1):
            def go():
                name = r["alg"]
                if name == "sweep":
                    from artap.algorithm_sweep import SweepAlgorithm
                    from artap.operators import LHSGenerator
                    g = LHSGenerator(problem.parameters)
                    g.init(r["n"] * r["g"])
                    alg = SweepAlgorithm(problem, generator=g)
                else:
                    if name == "nsga2":
                        from artap.algorithm_NSGAII import NSGAII as A
                    elif name == "epsmoea":
                        from artap.algorithm_genetic import EpsMOEA as A
                    elif name == "omopso":
                        from artap.algorithm_swarm import OMOPSO as A
                    elif name == "smpso":
                        from artap.algorithm_swarm import SMPSO as A
                    else:
                        from artap.algorithm_swarm import PSOGA as A
                    alg = A(problem)
                    alg.options['max_population_number'] = r["g"]
                    alg.options['max_population_size'] = r["n"]
                alg.options['verbose_level'] = 0
                alg.run()
            st, res = observe(go)
            inds = list(problem.individuals)
            tagged = []
            for ind in inds:
                aid = ind.algorithm_id
                if aid == 0:
                    tagged.append([int(ind.population_id), 0])        # never went through Algorithm.evaluate: no algorithm id
                    continue
                if aid not in algids:
                    algids[aid] = runno          # an id first seen after run k is run k's
                tagged.append([int(ind.population_id), algids[aid]])
            pos = {id(ind): k + 1 for k, ind in enumerate(inds)}
            pops = problem.populations()
            keys = sorted(pops)
            ev = {"ev": "run", "alg": r["alg"], "exc": "" if st == "ok" else res, "inds": tagged,
                  "pops": [[int(k), len(problem.population(k))] for k in keys],
                  "members": [sorted(pos.get(id(x), 0) for x in pops[k]) for k in keys],
                  "last": sorted(pos.get(id(x), 0) for x in problem.last_population())}
            trace.append(ev)
        return trace

    def nontrivial(self, case, trace):
        return len(trace) >= 2 and len({a for _, a in trace[-1]["inds"]}) >= 2

    def key(self, case, trace, fail):
        e = trace[fail["event"] - 1] if fail["event"] > 0 else {}
        return "runs:%s:%s" % (e.get("alg", "?"), fail["clause"])

    def sample(self, case, trace):
        return {"case": case, "trace": [dict(e, inds=e["inds"][:12], members=e["members"][:3], last=e["last"][:8]) for e in trace[:2]]}


def run(ctx, replay=None):
    return core.run_property(
        ctx, [Runs()], level="model_checking",
        assumptions=["documents the behaviour of the pinned tree, including the named deviation GenerationsMergeAcrossRuns (population(g) and "
                     "last_population() do not look at the algorithm id, so generations of different runs on one problem object merge); not a "
                     "listed property",
                     "algorithm ids are numbered in order of first appearance in problem.individuals; a design is identified by its position there"],
        level_rule="TLC checks ProblemRuns exhaustively (2 (3) runs, generations 0..2, up to 2 designs per generation) and refutes "
                   "LastIsOfLatestRun; every ordered pair of six artap algorithms (second run shorter / as long / longer) and random sequences of "
                   "3-4 runs are executed on one problem object; after every run the whole tagged list and the three queries are compared with "
                   "the model by TLC. non-trivial = designs of at least two runs are present",
        replay=replay)
