"""C16 -- multi-objective benchmarks satisfy the defining identities of their families.

spec: BenchOps.tla (exact rational lattice model), Benchmarks.tla (identities over the lattice), BenchTrace.tla
code: artap.benchmark_pareto.DTLZI..DTLZIV, ZDT1, BiObjectiveTestProblem
"""
import math
from fractions import Fraction

from .. import core, tlc
from ..core import Part, Skip, observe

MC_CFG = """CONSTANTS MObj = %d
K = %d
SPECIFICATION Spec
INVARIANT SumIdentity1
INVARIANT NormIdentity2
INVARIANT NonNeg
INVARIANT ExactlyOne2
INVARIANT DivisibleDen
CHECK_DEADLOCK FALSE
"""
ANGLES2 = [(1, 0, 1), (0, 1, 1), (3, 4, 5), (4, 3, 5), (5, 12, 13), (12, 5, 13)]
ANGLES1 = [(0, 1, 1), (1, 0, 1), (1, 1, 2), (1, 3, 4), (3, 1, 4), (1, 7, 8)]


def small_rational(x, maxden=80000):
    fr = Fraction(float(x)).limit_denominator(maxden)
    ok = abs(float(fr) - float(x)) <= 2e-11 * max(1.0, abs(float(x)))
    return fr, ok


class Lattice(Part):
    name = "lattice"
    trace_module = "BenchTrace"
    trace_shards = 8

    def mc(self, ctx):
        runs = []
        for m, k in ((2, 2), (3, 2), (4, 1)) if ctx.quick else ((2, 3), (3, 3), (4, 2)):
            runs.append(tlc.run("Benchmarks", MC_CFG % (m, k), ctx.scratch, workers=8, name="Benchmarks-%d-%d" % (m, k), timeout=3000))
        return runs

    def cases(self, ctx):
        rng = ctx.rng
        cases = []
        per = 400 if ctx.quick else 6000
        for family in ("dtlz1", "dtlz2", "dtlz3", "dtlz4"):
            for m in (2, 3, 4):
                angles = ANGLES1 if family == "dtlz1" else ANGLES2
                ks = [10] if family != "dtlz1" else [1, 2, 5, 10]
                for k in ks:
                    n = per // len(ks)
                    for t in range(n):
                        # all Boolean position vectors come first, then every position class, distance vectors sampled
                        if t < 2 ** (m - 1):
                            pos = [angles[(t >> j) & 1] for j in range(m - 1)]
                        else:
                            pos = [rng.choice(angles) for _ in range(m - 1)]
                        style = rng.random()
                        if style < 0.15:
                            dist = [2] * k                      # the Pareto-optimal set (distance variables at 0.5)
                        elif style < 0.5:
                            dist = [rng.choice([0, 2, 4]) for _ in range(k)]
                        else:
                            dist = [rng.randrange(5) for _ in range(k)]
                        cases.append({"kind": "point", "family": family, "m": m, "pos": [list(a) for a in pos], "dist": dist,
                                      "numpy": rng.choice(["float", "float", "scalar", "ndarray"])})
        for _ in range(300 if ctx.quick else 4000):
            style = rng.random()
            q = [rng.randrange(5)] + ([0] * 29 if style < 0.3 else [rng.randrange(5) for _ in range(29)])
            if style > 0.8:
                q[0] = 0
            cases.append({"kind": "zdt1", "q": q})
        # vertices and integer points of the box, given as Python ints / numpy integer arrays (hand-written test points, grids)
        for _ in range(40 if ctx.quick else 400):
            cases.append({"kind": "zdt1", "q": [4 * rng.randrange(2) for _ in range(30)], "typed": rng.choice(["int", "intarray", "float"])})
        for _ in range(200 if ctx.quick else 2000):
            cases.append({"kind": "biobj", "x1": [rng.randint(1, 8), 8], "x2": [rng.randint(0, 40), 8]})
        return cases

    def run_case(self, ctx, case):
        import numpy as np
        from artap import benchmark_pareto as bp
        from artap.individual import Individual
        if case["kind"] == "point":
            family, m = case["family"], case["m"]
            k = len(case["dist"])
            x = []
            for c, s, d in case["pos"]:
                if family == "dtlz1":
                    x.append(c / d)
                else:
                    theta = 2.0 / math.pi * math.atan2(s, c)
                    x.append(theta ** 0.01 if family == "dtlz4" else theta)
            x += [q / 4.0 for q in case["dist"]]
            cls = {"dtlz1": bp.DTLZI, "dtlz2": bp.DTLZII, "dtlz3": bp.DTLZIII, "dtlz4": bp.DTLZIV}[family]
            st, prob = observe(cls, dimension=len(x), m=m)
            ev = {"ev": "point", "family": family, "m": m, "pos": case["pos"], "dist": case["dist"], "f": [], "n": len(x),
                  "exact": True, "exc": ""}
            if st == "exc":
                ev["exc"] = prob
                return [ev]
            kind = case["numpy"]
            vec = [np.float64(v) for v in x] if kind == "scalar" else (np.array(x, dtype=float) if kind == "ndarray" else list(x))
            if kind == "float" and (len(x) + int(1000 * sum(x))) % 3 == 0:
                vec = [int(v) if float(v) == int(v) else v for v in x]         # integral coordinates written as Python ints
            ind = Individual(vec)
            st, res = observe(prob.evaluate, ind)
            if st == "exc":
                ev["exc"] = res
                return [ev]
            # the benchmark is a function of the point: evaluating must not change the design and must be repeatable
            st2, res2 = observe(prob.evaluate, ind)
            if st2 == "exc" or [float(v) for v in res2] != [float(v) for v in res] or [float(v) for v in ind.vector] != [float(v) for v in x]:
                ev["exc"] = "evaluation changed the design vector or is not repeatable" 
            for v in res:
                fr, ok = small_rational(v)
                ev["exact"] = ev["exact"] and ok
                ev["f"].append([fr.numerator, fr.denominator] if ok else [0, 1])
            return [ev]
        if case["kind"] == "zdt1":
            q = case["q"]
            prob = bp.ZDT1()
            coords = [v / 4.0 for v in q]
            if case.get("typed") == "int":
                coords = [int(v) for v in coords]
            elif case.get("typed") == "intarray":
                coords = np.array([int(v) for v in coords])
            ind = Individual(coords)
            st, res = observe(prob.evaluate, ind)
            ev = {"ev": "zdt1", "q": q, "f1": [0, 1], "f2": [0, 1], "F1c": 0, "F2c": 0, "Gc": 0, "exc": ""}
            if st == "exc":
                ev["exc"] = res
                return [ev]
            f1, ok1 = small_rational(res[0], 1000)
            f2, ok2 = small_rational(res[1], 1000)
            ev["f1"] = [f1.numerator, f1.denominator] if ok1 else [-1, 1]
            ev["f2"] = [f2.numerator, f2.denominator] if ok2 else [-1, 7]
            ev["F1c"], ev["F2c"] = int(round(100 * res[0])), int(round(100 * res[1]))
            ev["Gc"] = int(round(100 * float(prob.eval_g(ind))))
            return [ev]
        x1, x2 = case["x1"], case["x2"]
        prob = bp.BiObjectiveTestProblem()
        st, res = observe(prob.evaluate, Individual([x1[0] / x1[1], x2[0] / x2[1]]))
        ev = {"ev": "biobj", "x1": x1, "x2": x2, "f1": [0, 1], "f2": [0, 1], "exc": ""}
        if st == "exc":
            ev["exc"] = res
            return [ev]
        f1, ok1 = small_rational(res[0], 4096)
        f2, ok2 = small_rational(res[1], 4096)
        if not (ok1 and ok2):
            ev["exc"] = "objective is not the expected small rational"
        ev["f1"], ev["f2"] = [f1.numerator, f1.denominator], [f2.numerator, f2.denominator]
        return [ev]

    def nontrivial(self, case, trace):
        if case["kind"] == "point":
            return any(p not in ([1, 0, 1], [0, 1, 1]) for p in case["pos"]) or any(q != 2 for q in case["dist"])
        return True

    def key(self, case, trace, fail):
        return "bench:%s:%s" % (case.get("family", case["kind"]), fail["clause"])


class Reentrant(Part):
    """the benchmark is a function of the point also when several threads evaluate on ONE problem object (artap's own
    parallel evaluation does exactly that): lattice points evaluated concurrently must give the exact lattice values"""
    name = "concurrent"
    trace_module = "BenchTrace"

    def cases(self, ctx):
        rng = ctx.rng
        cases = []
        for family in ("dtlz1", "dtlz2", "dtlz3", "dtlz4"):
            for m in (2, 3):
                for rep in range(1 if ctx.quick else 6):
                    pts = []
                    angles = ANGLES1 if family == "dtlz1" else ANGLES2
                    for _ in range(240):
                        pts.append({"pos": [list(rng.choice(angles)) for _ in range(m - 1)], "dist": [rng.randrange(5) for _ in range(10)]})
                    cases.append({"kind": "threads", "family": family, "m": m, "points": pts})
                # the same question without leaving it to the scheduler: point A is being evaluated, and at its k-th read of a coordinate
                # another evaluation (point B, same problem object) runs to completion -- for every k; both results are the lattice values
                cases.append({"kind": "interleaved", "family": family, "m": m, "points": pts[:8 if ctx.quick else 40]})
        return cases

    def run_case(self, ctx, case):
        import sys
        import threading
        from artap import benchmark_pareto as bp
        from artap.individual import Individual
        family, m = case["family"], case["m"]
        cls = {"dtlz1": bp.DTLZI, "dtlz2": bp.DTLZII, "dtlz3": bp.DTLZIII, "dtlz4": bp.DTLZIV}[family]
        prob = cls(dimension=m + 9, m=m)
        xs = []
        for p in case["points"]:
            x = []
            for c, s_, d in p["pos"]:
                if family == "dtlz1":
                    x.append(c / d)
                else:
                    theta = 2.0 / math.pi * math.atan2(s_, c)
                    x.append(theta ** 0.01 if family == "dtlz4" else theta)
            xs.append(x + [q / 4.0 for q in p["dist"]])
        if case["kind"] == "interleaved":
            return self.interleaved(case, prob, xs)
        results = [None] * len(xs)
        nthreads = 4
        barrier = threading.Barrier(nthreads)

        def work(t):
            barrier.wait()
            for i in range(t, len(xs), nthreads):
                results[i] = observe(prob.evaluate, Individual(list(xs[i])))
        old = sys.getswitchinterval()
        sys.setswitchinterval(1e-6)          # force frequent thread switches inside evaluate()
        try:
            ths = [threading.Thread(target=work, args=(t,)) for t in range(nthreads)]
            for t in ths:
                t.start()
            for t in ths:
                t.join()
        finally:
            sys.setswitchinterval(old)
        return self.events(case, case["points"], xs, results)

    @staticmethod
    def events(case, points, xs, results):
        family, m = case["family"], case["m"]
        trace = []
        for p, x, (st, res) in zip(points, xs, results):
            ev = {"ev": "point", "family": family, "m": m, "pos": p["pos"], "dist": p["dist"], "f": [], "n": len(x), "exact": True, "exc": ""}
            if st == "exc":
                ev["exc"] = res
            else:
                for v in res:
                    fr, ok = small_rational(v)
                    ev["exact"] = ev["exact"] and ok
                    ev["f"].append([fr.numerator, fr.denominator] if ok else [0, 1])
            trace.append(ev)
        return trace

    def interleaved(self, case, prob, xs):
        from artap.individual import Individual

        class Paused(list):
            """a design vector that can tell when it is read: the at-th read of an element (index, slice or iteration step) first lets `hook` run"""
            def __init__(self, data, at, hook):
                super().__init__(data)
                self.reads, self.at, self.hook = 0, at, hook

            def tick(self):
                self.reads += 1
                if self.reads - 1 == self.at:
                    self.hook()

            def __getitem__(self, i):
                self.tick()
                return list.__getitem__(self, i)

            def __iter__(self):
                for k in range(len(self)):
                    self.tick()
                    yield list.__getitem__(self, k)

        points, out_x, results = [], [], []
        for a in range(0, len(xs) - 1, 2):
            b = a + 1
            probe = Individual([0.0])
            probe.vector = Paused(xs[a], -1, None)
            observe(prob.evaluate, probe)
            reads = probe.vector.reads
            ks = list(range(reads)) if reads <= 24 else sorted(set(int(reads * q / 24.0) for q in range(24)))
            for k in ks:
                inner = []
                ind = Individual([0.0])
                ind.vector = Paused(xs[a], k, lambda: inner.append(observe(prob.evaluate, Individual(list(xs[b])))))
                res_a = observe(prob.evaluate, ind)
                points += [case["points"][a]] + ([case["points"][b]] if inner else [])
                out_x += [xs[a]] + ([xs[b]] if inner else [])
                results += [res_a] + inner[:1]
        return self.events(case, points, out_x, results)

    def key(self, case, trace, fail):
        return "bench-concurrent:%s:%s" % (case["family"], fail["clause"])

    def sample(self, case, trace):
        return {"case": {"kind": case["kind"], "family": case["family"], "m": case["m"]}, "trace": trace[:2]}


def run(ctx, replay=None):
    return core.run_property(
        ctx, [Lattice(), Reentrant()], level="model_checking",
        assumptions=["lattice: distance variables at multiples of 1/4 (g exact), position variables at 0, 1 and Pythagorean angles "
                     "(cos and sin rational) resp. dyadic values for DTLZ1; the implementation's floats must lie within 2e-11 (relative) of a "
                     "rational with denominator <= 80000, which is then compared exactly",
                     "between lattice points the identities are not checked (no transcendental arithmetic in TLA+): an error that vanishes "
                     "on the whole lattice would be missed",
                     "ZDT1 away from g = 1 / f1 = 0: square-root-free identity in units of 1e-2 (about 0.3 % precision)"],
        level_rule="TLC checks the identities over the complete lattice for m = 2..4 and small k; sampled lattice points (all Boolean position vectors, "
                   "every position class incl. Pythagorean angles, distance vectors incl. the Pareto set) for m = 2..4, k = 10 (DTLZ1 also k = 1, 2, 5) "
                   "are evaluated by the real classes with Python floats and numpy scalars, ZDT1 on the quarter lattice, the bi-objective problem "
                   "on dyadic points; BenchTrace compares every objective with the model's exact rational. non-trivial = not the all-0.5 / Boolean "
                   "corner point; distinct = distinct abstract traces",
        replay=replay)
