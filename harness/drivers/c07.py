"""C07 -- parallel evaluation is equivalent to serial evaluation under every schedule; SQLite keeps every evaluated design.

spec: Job.tla (Mode = "parallel": workers, pending queue, exclusive store lock), JobGen.tla (schedules), JobTrace.tla
code: Evaluator.evaluate_parallel (joblib threads), Job.evaluate, SqliteDataStore.sync_individual
"""
import os
import threading
import time

from .. import core, jobrec, sched, tlc
from ..core import Part, Skip
from ..tlc import MachineryError
from .c05 import MC_CFG, behaviours


def design_classes():
    """a batch may mix design classes (the algorithm's own subclass next to plain Individuals made by an evaluator or read from a store):
    every one of them is a design of its own, with an id and a store row of its own"""
    from artap.algorithm_NSGAII import IndividualNSGAII
    from artap.algorithm_genetic import IndividualEpsMOEA
    from artap.individual import Individual
    # ... including design classes defined just now (every algorithm module defines its own subclass; so may a user's)
    return [type("DesignA", (Individual,), {}), Individual, IndividualNSGAII, type("DesignB", (IndividualNSGAII,), {}), IndividualEpsMOEA]


class Schedules(Part):
    steered_total = 0
    steered_realised = 0
    name = "schedules"
    trace_module = "JobTrace"
    coverage_strict = False

    def mc(self, ctx):
        runs = []
        plan = ((3, 2, ""), (3, 3, ""), (2, 2, '"transient", "fatal"')) if ctx.quick else \
               ((4, 2, ""), (4, 3, ""), (5, 2, ""), (3, 2, '"transient", "fatal"'))
        for nd, nw, faults in plan:
            runs.append(tlc.run("Job", MC_CFG % (nd, nw, faults, "parallel", 1), ctx.scratch, workers=16, coverage=True,
                                name="Job-mc-par-%dx%d%s" % (nd, nw, "-faults" if faults else ""), timeout=3000))
        return runs

    def cases(self, ctx):
        rng = ctx.rng
        cases = []
        plan = ((2, 2, None), (3, 2, 150), (3, 3, 120), (4, 2, 80)) if ctx.quick else \
               ((2, 2, None), (3, 2, None), (3, 3, None), (4, 2, None), (4, 3, 6000), (5, 2, 4000))
        for nd, nw, cap in plan:
            seen = set()
            for b in behaviours(ctx, nd, nw, "", "parallel", 1, "JobGen-sched-%dx%d" % (nd, nw)):
                schedule = tuple(({"ok": "call", "sync": "sync", "begin": "begin"}[h["a"]], h["d"]) for h in b["hist"]
                                 if h["a"] in ("ok", "sync", "begin"))
                key = (tuple(b["pre"]), schedule)
                if key in seen:
                    continue
                seen.add(key)
            seen = sorted(seen)
            if cap and len(seen) > cap:
                seen = rng.sample(seen, cap)
            for pre, schedule in seen:
                cases.append({"kind": "steered", "pre": list(pre), "workers": nw, "schedule": [list(s) for s in schedule],
                              "db": rng.random() < 0.25, "cseed": rng.randrange(1 << 30)})
        # free-running stress: random objective durations, 2-8 workers, SQLite attached, batches up to 40
        for _ in range(20 if ctx.quick else 400):
            cases.append({"kind": "stress", "n": rng.randint(2, 40), "workers": rng.randint(2, 8), "db": True,
                          "faulty": rng.random() < 0.3, "contention": rng.random() < 0.4, "foreign_lock": rng.random() < 0.4, "cseed": rng.randrange(1 << 30)})
        return cases

    def run_case(self, ctx, case):
        import random as pyrandom
        rng = pyrandom.Random(case["cseed"])
        db = None
        if case["db"]:
            db = os.path.join(ctx.scratch, "c07-%d-%d.sqlite" % (os.getpid(), rng.randrange(1 << 30)))
        try:
            if case["kind"] == "steered":
                return self.steered(rng, case, db)
            return self.stress(rng, case, db)
        finally:
            if db:
                for ext in ("", "-journal", "-wal", "-shm"):
                    try:
                        os.remove(db + ext)
                    except OSError:
                        pass

    @staticmethod
    def steered(rng, case, db):
        pre = case["pre"]
        n = len(pre)
        workers = case["workers"]
        todo = sum(1 for p in pre if not p)
        gates = sched.Gates([tuple(s) for s in case["schedule"]], todo, workers)
        rec = jobrec.Rec(dim=2, m=rng.randint(1, 2), mode="parallel", workers=workers, gate=gates.gate, db=db, constrained=rng.random() < 0.5)
        rec.on_synced = gates.done
        rec.gate_begin = True
        if case["cseed"] % 2:
            rec.classes = design_classes()
        vectors = [[round(rng.uniform(-5, 5), 6) for _ in range(2)] for _ in range(n)]
        if rng.random() < 0.4:
            # replicated designs: distinct objects with identical coordinates (elites, particles clipped to a bound) are designs of their own
            i, j = rng.sample(range(n), 2)
            vectors[j] = list(vectors[i])
        # offspring-like designs: created by copy() from an earlier design of the batch, then given their own vector
        copies = {j: rng.randrange(j) for j in range(1, n) if rng.random() < 0.4}
        rec.new_batch(vectors, pre=pre, copies=copies)
        th = threading.Thread(target=gates.controller, daemon=True)
        th.start()
        exc = jobrec.evaluate_batch(rec, workers=workers, on_exception=gates.finish)
        gates.finish()
        th.join(60)
        if gates.stalled or th.is_alive():
            raise MachineryError("steered schedule stalled: %s" % case["schedule"])
        if isinstance(exc, MachineryError):
            raise exc
        rec.end_event(exc)
        case["realised"] = gates.realised
        Schedules.steered_total += 1
        Schedules.steered_realised += 1 if gates.realised else 0
        return rec.events + rec.signed_events()

    @staticmethod
    def stress(rng, case, db):
        import random as pyrandom
        n, workers = case["n"], case["workers"]
        srng = pyrandom.Random(case["cseed"] + 5)
        lock = threading.Lock()

        def gate(kind, k):
            with lock:
                d = srng.choice([0.0, 0.0, 0.0005, 0.002])
            if d:
                time.sleep(d)

        def script(k, att, callno):
            with lock:
                if case["faulty"] and att < 3 and srng.random() < 0.2:
                    return "timeout"
            return "ok"
        rec = jobrec.Rec(dim=2, m=1, mode="parallel", workers=workers, gate=gate, script=script, db=db, constrained=rng.random() < 0.5)
        if case["cseed"] % 2:
            rec.classes = design_classes()
        vectors = [[round(rng.uniform(-5, 5), 6) for _ in range(2)] for _ in range(n)]
        for _ in range(rng.choice([0, 0, 1, 3])):
            i, j = rng.sample(range(n), 2)
            vectors[j] = list(vectors[i])
        rec.new_batch(vectors, pre=[rng.random() < 0.15 for _ in range(n)], copies={j: rng.randrange(j) for j in range(1, n) if rng.random() < 0.3})
        restore = None
        if case.get("contention"):
            # lock contention injected at the sqlite3 boundary: the upsert of a design fails 1..3 times with "database is locked"
            # (what another writer holding the exclusive lock causes); every evaluated design must be persisted all the same
            import sqlite3
            real_connect = sqlite3.connect
            budget = {}

            class Cur:
                def __init__(self, c):
                    self._c = c

                def execute(self, sql, *a):
                    if sql.lstrip().upper().startswith("INSERT INTO INDIVIDUALS") and a:
                        with lock:
                            key = a[0][0]
                            left = budget.setdefault(key, srng.choice([0, 1, 2, 3]))
                            if left > 0:
                                budget[key] = left - 1
                                raise sqlite3.OperationalError("database is locked")
                    return self._c.execute(sql, *a)

                def __iter__(self):             # rows may be streamed from the cursor
                    return iter(self._c)

                def __next__(self):
                    return next(self._c)

                def __getattr__(self, name):
                    return getattr(self._c, name)

            class Conn:
                def __init__(self, c):
                    self._c = c

                def cursor(self):
                    return Cur(self._c.cursor())

                def __getattr__(self, name):
                    return getattr(self._c, name)
            sqlite3.connect = lambda *a, **k: Conn(real_connect(*a, **k))
            restore = (sqlite3, real_connect)
        foreign = None
        if case.get("foreign_lock") and db:
            # another process (a result browser, a backup, a second study) holds the write lock of the file for a few hundred milliseconds
            # while the batch is being evaluated: the workers wait for it, nothing else changes
            import sqlite3 as _sq
            connect0 = restore[1] if restore else _sq.connect

            def hold():
                time.sleep(srng.choice([0.0, 0.005, 0.02]))
                try:
                    con = connect0(db, timeout=30, isolation_level=None)
                    con.execute("BEGIN EXCLUSIVE")
                    time.sleep(1.2)
                    con.execute("COMMIT")
                    con.close()
                except Exception:      # noqa -- the holder itself is not under test
                    pass
            foreign = threading.Thread(target=hold, daemon=True)
            foreign.start()
        try:
            exc = jobrec.evaluate_batch(rec, workers=workers)
        finally:
            if restore:
                restore[0].connect = restore[1]
            if foreign is not None:
                foreign.join(10)
        rec.end_event(exc)
        return rec.events + rec.signed_events()

    def nontrivial(self, case, trace):
        # two objective calls overlapped: a call event while another design was in call
        incall = 0
        for e in trace:
            if e["ev"] == "call":
                if incall:
                    return True
                incall += 1
            elif e["ev"] == "ret":
                incall -= 1
        return False

    def key(self, case, trace, fail):
        e = trace[fail["event"] - 1] if fail["event"] > 0 else {}
        return "parallel:%s:%s:%s" % (case["kind"], e.get("ev", "?"), fail["clause"])

    def sample(self, case, trace):
        return {"case": case, "trace": trace[:10]}


def run(ctx, replay=None):
    part = Schedules()
    orig = part.run_case

    def counting(c, case):
        tr = orig(c, case)
        ctx.notes[:] = ["steered schedules: %d run, %d realised exactly as emitted by TLC (the others were completed in arrival order)"
                        % (Schedules.steered_total, Schedules.steered_realised)]
        return tr
    part.run_case = counting
    return core.run_property(
        ctx, [part], level="model_checking",
        assumptions=["interleavings are controlled at objective-call and store-synchronisation granularity (the property's granularity) through "
                     "gates in the user objective and around data_store.sync_individual; finer interleavings inside Job.evaluate are exercised only "
                     "by the free-running stress runs",
                     "worker identity is not observable: traces are validated against the per-design projection of the Job model, whose exhaustive "
                     "configuration shows that every interleaving of the per-design automata ends in the serial result",
                     "a schedule the joblib dispatcher cannot realise is completed in arrival order; the recorded trace is validated all the same"],
        level_rule="TLC emits every distinct schedule (order of objective returns and store synchronisations) of the parallel Job model for 2x2, 3x2 "
                   "(all), 3x3, 4x2 (sampled in quick) designs x workers x initial states; each is forced onto the real joblib threads through gates, "
                   "a quarter with a real SQLite store attached and read back; free-running stress runs (2-8 workers, <=40 designs, random "
                   "durations, transient failures, SQLite) are recorded too; JobTrace validates every event and the end state. non-trivial = two "
                   "objective calls overlapped; distinct = distinct abstract traces",
        replay=replay)
