"""C19 -- the surrogate wrapper returns true values unless predicting; exact accounting.

spec: Surrogate.tla (Request action), SurrogateGen.tla (every accept/decline sequence), SurrogateTrace.tla (replays Request)
code: artap.surrogate.SurrogateModelPredict / SurrogateModelEval, artap.surrogate_scikit.SurrogateModelScikit
"""
import json

from .. import absx, core, tlc
from ..core import Part, Skip, observe

MC_CFG = """CONSTANTS TrainSteps = {0, 1, 2, 3%s}
MaxReq = %d
Modes = {"predict", "eval"}
SPECIFICATION Spec
INVARIANT CountersAddUp
INVARIANT OneCallPerEval
INVARIANT DataAligned
INVARIANT DataInOrder
INVARIANT TrainSchedule
INVARIANT NeverTrained
INVARIANT PassThrough
PROPERTY PredictOnlyTrained
PROPERTY Monotone
CHECK_DEADLOCK FALSE
"""
GEN_CFG = """CONSTANTS TrainSteps = {0, 1, 2, 3}
MaxReq = %d
Modes = {"predict", "eval"}
INIT GInit
NEXT GNext
INVARIANT Emit
CHECK_DEADLOCK FALSE
"""
TRACE_CFG = "CONSTANTS TrainSteps = {0}\nMaxReq = 1000000\nModes = {\"predict\"}\n" + core.TRACE_CFG


class Requests(Part):
    name = "requests"
    trace_module = "SurrogateTrace"
    trace_cfg = TRACE_CFG

    def mc(self, ctx):
        # Apalache side-car: the counter laws as an inductive invariant, i.e. for request sequences of any length (train steps 0,1,2,3,5,7)
        tlc.sidecar(ctx, "apalache-mc: IndInv of spec/apalache/SurrogateInd.tla inductive (Init => IndInv, IndInv /\\ Next => IndInv') -- unbounded "
                    "request sequences", tlc.apalache_inductive, "apalache/SurrogateInd.tla", ctx.scratch)
        return [tlc.run("Surrogate", MC_CFG % ("", 7) if ctx.quick else MC_CFG % (", 4, 5", 10), ctx.scratch, workers=8, coverage=True,
                        name="Surrogate-mc", timeout=2400)]

    def cases(self, ctx):
        rng = ctx.rng
        cases = []
        n = 6 if ctx.quick else 10
        r = tlc.run("SurrogateGen", GEN_CFG % n, ctx.scratch, workers=4, name="SurrogateGen", timeout=1800)
        behs = sorted({b[1] for b in r.printed("BEH")})
        if not behs:
            raise tlc.MachineryError("SurrogateGen emitted nothing")
        for b in behs:
            beh = json.loads(b)
            flavours = ["eval"] if beh["mode"] == "eval" else ["custom", "scikit"]
            for fl in flavours:
                if fl == "scikit" and ctx.quick and rng.random() < 0.8:
                    continue
                cases.append({"kind": "beh", "flavour": fl, "ts": beh["ts"], "trained0": beh["trained0"], "accepts": beh["accepts"],
                              "cseed": rng.randrange(1 << 30)})
        # beyond the model: long random request sequences with larger train steps
        for _ in range(60 if ctx.quick else 5000):
            cases.append({"kind": "random", "flavour": rng.choice(["custom", "custom", "scikit", "eval"]), "ts": rng.choice([0, 1, 2, 3, 5, 7, 10]),
                          "trained0": rng.random() < 0.3, "accepts": [rng.random() < 0.6 for _ in range(rng.randint(5, 60))],
                          "cseed": rng.randrange(1 << 30)})
        return cases

    def run_case(self, ctx, case):
        import random as pyrandom
        from artap.individual import Individual
        from artap.surrogate import SurrogateModelEval, SurrogateModelPredict
        rng = pyrandom.Random(case["cseed"])
        fl = case["flavour"]
        ts = case["ts"]
        state = {"objcalls": 0, "trains": 0, "i": 0, "last_true": None, "last_pred": None}
        accepts = case["accepts"]
        predshapes = ["list", "zero", "array", "tuple", "zero-array", "list", "zero-list"]
        rng.shuffle(predshapes)

        failing = set(rng.sample(range(len(accepts)), max(0, len(accepts) // 6))) if (fl != "eval" and case["cseed"] % 5 == 2) else set()

        def objective(ind):
            state["objcalls"] += 1
            if state["i"] in failing:
                state["raised"] = True
                raise RuntimeError("solver diverged")
            v = [float(sum(ind.vector)) * 1.5 + 0.25, float(ind.vector[0]) - 7.0]
            state["last_true"] = v
            return v
        problem = absx.make_problem(2, bounds=[[-5.0, 5.0]] * 2,
                                    costs=[{'name': 'f1', 'criteria': 'minimize'}, {'name': 'f2', 'criteria': 'minimize'}],
                                    evaluate=objective)
        if fl == "eval":
            sur = SurrogateModelEval(problem)
            mode = "eval"
            ts = 0
            trained0 = True
        else:
            mode = "predict"
            trained0 = case["trained0"]
            if fl == "custom":
                class Sur(SurrogateModelPredict):
                    def __init__(self, p):
                        super().__init__(p)
                        self.train_step = ts if ts != 0 else -1

                    def train(self):
                        state["trains"] += 1
                        self.trained = True

                    def predict(self, x, *args):
                        return [[123.0, 456.0]]
                sur = Sur(problem)
            else:
                from sklearn.neighbors import KNeighborsRegressor
                from artap.surrogate_scikit import SurrogateModelScikit
                sur = SurrogateModelScikit(problem)
                sur.train_step = ts if ts != 0 else -1
                sur.regressor = KNeighborsRegressor(n_neighbors=1)
                orig_train = sur.train

                def counting_train():
                    state["trains"] += 1
                    orig_train()
                sur.train = counting_train
            if trained0:
                # a model trained beforehand (e.g. from stored data): fitted on two points, counters untouched
                if fl == "scikit":
                    sur.regressor.fit([[0.0, 0.0], [1.0, 1.0]], [[0.25, -7.0], [3.25, -6.0]])
                sur.trained = True

            stateful = case["cseed"] % 3 == 1

            def predict_hook(individual):
                i = state["i"]
                state["hookcalls"] = state.get("hookcalls", 0) + 1
                if stateful and state["hookcalls"] > 1:
                    # the hook is user code with a state of its own (a budget, an alternating policy): its answer to a second question about the
                    # same request is the opposite one -- the decision of a request is the answer it gave when it was asked
                    return None if accepts[i] else [321.0, 654.0]
                if not accepts[i]:
                    return None
                p = sur.predict(individual.vector)
                v = [float(p[0][0]), float(p[0][1])] if fl == "scikit" else [123.0, 456.0]
                # "returns a value": anything but None -- a list, a tuple, a numpy array, a bare number (also 0.0: a legitimate prediction)
                shape = predshapes[i % len(predshapes)]
                if shape == "tuple":
                    v = tuple(v)
                elif shape == "array":
                    import numpy as np
                    v = np.array(v)
                elif shape == "zero":
                    v = 0.0
                elif shape == "zero-array":
                    import numpy as np
                    v = np.array([0.0])
                elif shape == "zero-list":
                    v = [0.0, 0.0]
                state["last_pred"] = v
                state["pred_made"] = True
                return v
            problem.predict = predict_hook
        problem.surrogate = sur
        # the statistics switch of the surrogate classes is a public option: the counter laws do not depend on it
        # (not for SurrogateModelScikit: with the switch off its train() compares the never-computed score None with the threshold and raises
        # TypeError on the pinned tree -- an observation recorded in DESIGN.md section 6, outside what C19 quantifies over)
        if case["cseed"] % 4 == 2 and fl != "scikit":
            sur.eval_stats = False
        vpool = [[round(rng.uniform(-5, 5), 3), round(rng.uniform(-5, 5), 3)] for _ in range(rng.choice([1, 2, 3, 50]))]
        pre = 0
        if fl != "eval" and case["cseed"] % 4 == 0:
            # warm start: the training set is preloaded from designs the problem already holds (a previous run read from a data store);
            # that is not a request, so no counter moves
            pre = rng.randint(1, 7)
            for _ in range(pre):
                old = Individual([round(rng.uniform(-5, 5), 3), round(rng.uniform(-5, 5), 3)])
                old.costs = [float(sum(old.vector)) * 1.5 + 0.25, float(old.vector[0]) - 7.0]
                problem.individuals.append(old)
            observe(sur.read_from_data_store)
        trace = [{"ev": "config", "ts": ts, "mode": mode, "trained": bool(trained0), "pre": pre if len(sur.x_data) == pre else len(sur.x_data)}]
        for i, acc in enumerate(accepts):
            state["i"] = i
            state["last_true"] = state["last_pred"] = None
            state["pred_made"] = False
            state["hookcalls"] = 0
            state["raised"] = False
            # vectors come from a small pool: the same design may be requested (and truly evaluated) several times
            ind = Individual(list(rng.choice(vpool)))
            if rng.random() < 0.25:
                # a design that already carries (stale) costs: re-evaluated objects, moved particles, designs read from a store
                ind.costs = [25.0, -1.0]
                ind.costs_signed = [25.0, -1.0, 0]
            ndata_before = len(sur.x_data)
            st, val = observe(sur.evaluate, ind)
            ev = {"ev": "request", "accept": bool(acc), "kind": "eval", "returned_true": False, "returned_pred": False,
                  "evalcnt": sur.eval_counter, "predcnt": sur.predict_counter, "ndata": len(sur.x_data), "trains": state["trains"],
                  "objcalls": state["objcalls"], "trained": bool(sur.trained), "pair_ok": True, "exc": ""}
            if st == "exc" and state["raised"]:
                ev["ev"] = "failed"          # the objective itself failed: judged by FailedEv
                ev["exc"] = val
            elif st == "exc":
                ev["exc"] = val
            else:
                if state["last_true"] is not None:
                    ev["kind"] = "eval"
                    ev["returned_true"] = val is state["last_true"] or list(val) == state["last_true"]
                elif state["pred_made"]:
                    ev["kind"] = "predict"
                    ev["returned_pred"] = val is state["last_pred"]
                else:
                    ev["kind"] = "nothing"
                if len(sur.x_data) != len(sur.y_data):
                    ev["pair_ok"] = False
                elif len(sur.x_data) == ndata_before + 1:
                    def aslist(v):
                        try:
                            return [float(t) for t in v]
                        except TypeError:
                            return [v]
                    ev["pair_ok"] = aslist(sur.x_data[-1]) == aslist(ind.vector) and aslist(sur.y_data[-1]) == aslist(state["last_true"] or [])
                elif len(sur.x_data) != ndata_before:
                    ev["pair_ok"] = False
            trace.append(ev)
        return trace

    def nontrivial(self, case, trace):
        kinds = {e.get("kind") for e in trace if e["ev"] == "request"}
        return len(kinds) >= 2

    def key(self, case, trace, fail):
        return "surrogate:%s:%s" % (case["flavour"], fail["clause"])

    def sample(self, case, trace):
        return {"case": case, "trace": trace[:5]}


def run(ctx, replay=None):
    return core.run_property(
        ctx, [Requests()], level="model_checking",
        assumptions=["the predict hook is the harness's scripted Problem.predict (value / None per request); train() calls are counted by wrapping "
                     "the public train method; the scikit flavour uses a 1-nearest-neighbour regressor",
                     "SurrogateModelSMT is not exercised (the smt package's tests fail in this sandbox)"],
        level_rule="TLC emits EVERY accept / decline sequence of length 6 (thorough 8) for train_step in {-1, 1, 2, 3}, both initial trained states and "
                   "the pass-through mode; each is replayed through a counting subclass of SurrogateModelPredict, the real SurrogateModelScikit and "
                   "SurrogateModelEval; random sequences up to 60 requests with train steps up to 10; SurrogateTrace replays the same Request action "
                   "and compares every counter, the training set, the trained flag and the value source after every request. non-trivial = both "
                   "predictions and true evaluations occurred; distinct = distinct abstract traces",
        replay=replay)
