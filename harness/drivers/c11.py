"""C11 -- a crash at any moment leaves the SQLite store readable and consistent.

spec: Store.tla (Exec / Commit / Crash, ReturnedAreDurable; deviation batched-commit), StoreTrace.tla (recover clauses)
code: SqliteDataStore (default thread-safe mode), Job.evaluate's immediate write; forked children killed at every crash point
"""
import os
import random
import signal
import time

from .. import core, crash, jobrec, tlc
from ..core import Part, Skip
from .c10 import STORE_CFG


class Crashes(Part):
    name = "crash-points"
    trace_module = "StoreTrace"
    coverage_strict = True

    def mc(self, ctx):
        runs = [tlc.run("Store", STORE_CFG % (8 if ctx.quick else 10, "none"), ctx.scratch, workers=8, coverage=True, name="Store-mc", timeout=2400)]
        r = tlc.run("Store", STORE_CFG % (7, "batched-commit"), ctx.scratch, workers=4, name="Store-dev-batched")
        if not r.violated:
            raise tlc.MachineryError("the batched-commit deviation no longer violates the crash model")
        r = tlc.run("Store", STORE_CFG % (6, "journal-off"), ctx.scratch, workers=4, name="Store-dev-journal-off")
        if r.violated != "CrashAtomic":
            raise tlc.MachineryError("the journal-off deviation no longer violates CrashAtomic (got %s)" % r.violated)
        return runs

    def cases(self, ctx):
        rng = ctx.rng
        cases = []
        self.dry_error = {}
        scenarios = self.scenarios(ctx)
        for sc in scenarios:
            seed = rng.randrange(1 << 30)
            total = self.count_points(ctx, sc, seed)
            if total is None:
                cases.append({"kind": "dry", "scenario": sc, "k": 0, "seed": seed, "total": 0, "what": self.dry_error.get(sc, "?")})
                continue
            ks = list(range(1, total + 2))
            if sc.startswith("bulk"):
                # a transaction larger than SQLite's page cache: crash inside the final sync_all (its upserts are the last points)
                last = list(range(max(1, total - 1100), total + 1))
                ks = sorted(rng.sample(last, 5 if ctx.quick else 60) + [total - 1, total])
            cap = 30 if ctx.quick else 100000
            if len(ks) > cap:
                ks = sorted(rng.sample(ks, cap - 2) + [1, total + 1])
            for k in ks:
                cases.append({"kind": "point", "scenario": sc, "k": k, "seed": seed, "total": total})
        for _ in range(10 if ctx.quick else 300):
            cases.append({"kind": "sigkill", "scenario": rng.choice(self.sigkill_scenarios), "delay": rng.uniform(0.0, 0.25),
                          "seed": rng.randrange(1 << 30)})
        self.results = self.run_all(ctx, cases)
        return cases

    def scenarios(self, ctx):
        return ["serial", "presync", "contended", "monitored", "parallel", "nsga2", "bulk"] + ([] if ctx.quick else ["epsmoea"])

    sigkill_scenarios = ["parallel", "nsga2", "serial"]

    def count_points(self, ctx, sc, seed):
        db = os.path.join(ctx.scratch, "c11-count-%s.sqlite" % sc)
        log = db + ".log"
        pid = crash.spawn(db, log, 0, sc, seed)
        deadline = time.time() + 90
        while True:
            done, status = os.waitpid(pid, os.WNOHANG)
            if done:
                break
            if time.time() > deadline:
                # the uninterrupted run does not terminate (e.g. a writer waiting for a lock for ever): an observation
                os.kill(pid, signal.SIGKILL)
                os.waitpid(pid, 0)
                self.cleanup(db, log)
                self.dry_error[sc] = "the uninterrupted run did not finish within 90 s"
                return None
            time.sleep(0.01)
        evs = crash.read_log(log)
        self.cleanup(db, log)
        fin = [e for e in evs if e["ev"] == "finished"]
        if not fin:
            if any(e["ev"] == "childerror" and "MachineryError" not in e["what"] for e in evs):
                self.dry_error[sc] = next(e["what"] for e in evs if e["ev"] == "childerror")
                return None
            raise tlc.MachineryError("crash child did not finish its dry run (%s): %s" % (sc, evs[-3:]))
        return fin[0]["points"]

    @staticmethod
    def cleanup(db, log):
        for p in (db, db + "-journal", db + "-wal", db + "-shm", log):
            try:
                os.remove(p)
            except OSError:
                pass

    def run_all(self, ctx, cases):
        """children are forked here, up to 12 at a time, before any trace is built (no threads alive at fork time)"""
        results = {}
        pending = list(enumerate(cases))
        running = {}
        started = {}
        hung = set()
        while pending or running:
            while pending and len(running) < 12:
                i, c = pending.pop(0)
                if c["kind"] == "dry":
                    results[i] = ([{"ev": "created"}, {"ev": "childerror", "what": c["what"]}], {"readable": True, "dup": 0, "rows": [], "why": ""}, 0)
                    continue
                db = os.path.join(ctx.scratch, "c11-%d.sqlite" % i)
                log = db + ".log"
                if c["kind"] == "point":
                    pid = crash.spawn(db, log, c["k"], c["scenario"], c["seed"])
                    running[pid] = (i, db, log, None)
                    started[pid] = time.time()
                else:
                    pid = crash.spawn(db, log, 0, c["scenario"], c["seed"], slow=True)
                    running[pid] = (i, db, log, time.time() + c["delay"])
            # kill the ones whose time has come (and writers that hang for more than 120 s)
            now = time.time()
            for pid, t0 in list(started.items()):
                if pid in running and now - t0 > 120:
                    try:
                        os.kill(pid, signal.SIGKILL)
                    except OSError:
                        pass
                    hung.add(pid)
                    started.pop(pid)
            for pid, (i, db, log, due) in list(running.items()):
                if due is not None and now >= due:
                    try:
                        os.kill(pid, signal.SIGKILL)
                    except OSError:
                        pass
                    running[pid] = (i, db, log, None)
            try:
                pid, status = os.waitpid(-1, os.WNOHANG)
            except ChildProcessError:
                pid = 0
            if pid == 0:
                time.sleep(0.002)
                continue
            if pid in running:
                i, db, log, _ = running.pop(pid)
                evs = crash.read_log(log)
                if pid in hung:
                    evs.append({"ev": "childerror", "what": "writer hung for more than 120 s"})
                rec = crash.recover(db)
                results[i] = (evs, rec, status)
                self.cleanup(db, log)
        return results

    def run_case(self, ctx, case):
        i = next(j for j, c in enumerate(self._cases) if c is case) if hasattr(self, "_cases") else None
        raise NotImplementedError

    def nontrivial(self, case, trace):
        return any(e["ev"] == "syncret" for e in trace)

    def key(self, case, trace, fail):
        name = next((e.get("name", "?") for e in trace if e["ev"] == "crash"), "?")
        return "crash:%s:%s:%s" % (case["scenario"], name, fail["clause"])

    def sample(self, case, trace):
        return {"case": case, "trace": trace[-3:]}


class CrashesImpl(Crashes):
    def cases(self, ctx):
        cs = super().cases(ctx)
        for i, c in enumerate(cs):
            c["_i"] = i
        return cs

    def run_case(self, ctx, case):
        if "_i" not in case or not hasattr(self, "results"):
            # replay of one crash point: fork that single writer again
            case["_i"] = 0
            self.dry_error = {}
            self.results = self.run_all(ctx, [case])
        evs, rec, status = self.results[case["_i"]]
        if any(e["ev"] == "childerror" for e in evs):
            # the child died from an exception of its own (not from the injected crash): an observation about the code under test
            what = next(e["what"] for e in evs if e["ev"] == "childerror")
            if "MachineryError" in what:
                raise tlc.MachineryError(what)
        keys = {}

        def vkey(vec):
            t = tuple(vec)
            if t not in keys:
                keys[t] = len(keys) + 1
            return keys[t]

        def cf_of(vec, costs):
            if not costs:
                return 0
            return vkey(vec) if [n / 1e9 for n in jobrec.fp_costs(vec, 2)] == list(costs[:2]) else -1
        trace = []
        crashed = False
        for e in evs:
            if e["ev"] == "syncret":
                trace.append({"ev": "syncret", "k": e["id"], "obj": e.get("obj", 0), "v": vkey(e["vector"]), "cf": cf_of(e["vector"], e["costs"])})
            elif e["ev"] == "crash":
                trace.append({"ev": "crash", "point": e["point"], "name": e["name"]})
                crashed = True
            elif e["ev"] == "created":
                trace.append({"ev": "created"})
            elif e["ev"] == "childerror":
                trace.append({"ev": "childerror", "what": e["what"]})
        if not any(e["ev"] == "created" for e in evs):
            raise Skip()            # killed before the store existed: outside the property
        if not crashed:
            trace.append({"ev": "crash", "point": -1, "name": "sigkill" if case["kind"] == "sigkill" else "after-finish"})
        rows = [{"k": r["id"], "v": vkey(r["vector"]), "cf": cf_of(r["vector"], r["costs"]), "complete": bool(r["complete"]), "st": r["st"]}
                for r in rec["rows"]]
        trace.append({"ev": "recover", "readable": bool(rec["readable"]), "dup": int(rec["dup"]), "rows": rows, "why": rec["why"]})
        case.pop("_i", None)
        return trace


def run(ctx, replay=None):
    return core.run_property(
        ctx, [CrashesImpl()], level="fault_enumeration",
        assumptions=["process death = os._exit / SIGKILL of the writer process (the kernel page cache survives; power loss is not modelled)",
                     "crash points: entry / exit of the user objective, before / after every SQL statement and every commit that artap issues through "
                     "sqlite3 (proxy around sqlite3.connect), and SIGKILL at random instants; points before the store's constructor has returned are "
                     "outside the property",
                     "'costs match the vector' is decided with the hash-based fixed-point objective (equality with F(vector))"],
        level_rule="for each scenario (serial batch of 3, two-thread batch of 4, NSGA-II 3x2; thorough also eps-MOEA) a dry run counts the crash points "
                   "and one child per point is forked and killed there (quick: at most 45 points per scenario, always the first and the one after the "
                   "last), plus SIGKILL at random instants; the file is then opened through ProblemViewDataStore, raw SQL and PRAGMA integrity_check; "
                   "StoreTrace checks readability, durability of every returned synchronisation, completeness of every row and costs-match-vector. "
                   "non-trivial = at least one synchronisation had returned before the crash; distinct = distinct abstract traces",
        replay=replay)
