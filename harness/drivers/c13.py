"""C13 -- factorial and screening designs have their defining combinatorial structure.

spec: DesignsOps.tla (FullFactOK, PBOK, BBOK, GSDOK), Designs.tla (reference constructions), DesignsTrace.tla
code: artap.operators FullFactorGenerator / FullFactorLevelsGenerator / PlackettBurmanGenerator / BoxBehnkenGenerator / GSDGenerator,
      artap.doe build_full_fact / pbdesign / bbdesign / build_gsd
"""
import copy
import itertools

from .. import core, tlc
from ..core import Part, Skip, observe
from .c12 import BOXES, MC_CFG, inbox, make_params


def level_index(v, levels):
    """position of a generated value in the supplied level list: numbers by exact numeric equality (no float round trip: 2**53 + 1 stays
    what it is), categorical levels (strings) only against strings"""
    for i, lv in enumerate(levels):
        if isinstance(lv, str) or isinstance(v, str):
            if isinstance(lv, str) and isinstance(v, str) and v == lv:
                return i
            continue
        try:
            if v == lv:
                return i
        except Exception:      # noqa
            continue
    return None


class Factorial(Part):
    name = "factorial"
    trace_module = "DesignsTrace"
    trace_shards = 8

    def mc(self, ctx):
        return [tlc.run("Designs", MC_CFG % ((4, 300) if ctx.quick else (5, 2000)), ctx.scratch, workers=8, name="Designs-mc", timeout=2400)]

    def cases(self, ctx):
        rng = ctx.rng
        cases = []
        # Plackett-Burman: every factor count 1..23 (all supported), 24..27 need 28 runs (unsupported: must raise)
        for n in list(range(1, 24)) + [24, 27]:
            for api in ("generator", "pbdesign", "generator-after-bb"):
                cases.append({"kind": "pb", "n": n, "api": api.split("-")[0], "after_bb": api.endswith("bb"), "cseed": rng.randrange(1 << 30)})
        for n in range(3, 9 if ctx.quick else 11):
            for api in ("generator", "bbdesign", "generator-after-bb"):
                cases.append({"kind": "bb", "n": n, "api": api.split("-")[0], "after_bb": api.endswith("bb"), "cseed": rng.randrange(1 << 30)})
        # full factorial: centre / no centre, and arbitrary level lists of sizes 1..5 for 1..5 factors
        for d in (1, 2, 3, 4, 5):
            for center in (False, True):
                if (3 if center else 2) ** d <= 300:
                    for after in (False, True):
                        cases.append({"kind": "fullfact", "d": d, "center": center, "levels": None, "after_bb": after,
                                      "cseed": rng.randrange(1 << 30)})
                    # a zooming sweep: the generator object is kept, the bounds of its parameters are narrowed, the next design is the
                    # full factorial of the levels given NOW
                    cases.append({"kind": "fullfact", "d": d, "center": center, "levels": None, "after_bb": False, "zoom": True,
                                  "cseed": rng.randrange(1 << 30)})
        seen = set()
        for _ in range(60 if ctx.quick else 600):
            d = rng.randint(1, 5)
            lv = tuple(rng.randint(1, 5) for _ in range(d))
            if lv in seen or _prod(lv) > 700:
                continue
            seen.add(lv)
            cases.append({"kind": "fullfact", "d": d, "center": None, "levels": list(lv), "cseed": rng.randrange(1 << 30)})
        # fine sweeps: one factor with many levels ("any level lists"); the sizes straddle the 8- and 16-bit code boundaries
        fine = [[127], [128], [129], [150, 2], [2, 150], [200, 3], [255], [256, 2], [2, 257], [300], [2, 130, 2]]
        if not ctx.quick:
            fine += [[1000], [3, 400], [32767 // 64, 2], [600, 2], [2, 2, 260], [33000]]
        for lv in fine:
            cases.append({"kind": "fullfact", "d": len(lv), "center": None, "levels": list(lv), "cseed": rng.randrange(1 << 30)})
        # level lists whose values are of mixed kinds: a categorical level next to numbers, an integer beyond 2**53 next to floats
        for values in ([['auto', 0.5, 1.0], [1.0, 2.0]], [[2 ** 53 + 1, 0.5], ['a', 'b', 'c']], [[0.5, 'off'], [3, 7.5, 2 ** 60]],
                       [[1, 2.5, 'x'], ['lo', 'hi'], [10, 20]],
                       # a value named more than once in a level list: the combinations are those of the positions
                       [[0.0, 0.5, 0.5, 1.0], [10, 20]], [[1, 1, 2], [3, 4, 4]], [[5, 5]], [[0, 1, 1]], [[2.5, 'a', 2.5, 'b', 'a'], [7]],
                       [[1, 2], [0.25, 0.25, 0.25], [3, 3, 9]]):
            cases.append({"kind": "fullfact", "d": len(values), "center": None, "levels": [len(v) for v in values], "values": values,
                          "cseed": rng.randrange(1 << 30)})
        # generalized subset designs: level lists x reductions x complementary counts
        grid = [[2, 2], [3, 3], [3, 4], [4, 4], [2, 3, 4], [3, 3, 3], [5, 3], [2, 2, 2], [4, 6], [3, 4, 6], [2, 3, 5], [5, 5], [6, 6], [2, 2, 3, 3]]
        for levels in grid:
            for red in (2, 3, 4):
                if any(l < red for l in levels) and ctx.quick and rng.random() < 0.5:
                    continue
                for ncomp in range(1, red + 1):
                    cases.append({"kind": "gsd", "levels": levels, "reduction": red, "ncomp": ncomp, "cseed": rng.randrange(1 << 30)})
        return cases

    def run_case(self, ctx, case):
        import random as pyrandom
        import numpy as np
        from artap import doe
        from artap import operators as ops
        rng = pyrandom.Random(case["cseed"])
        kind = case["kind"]
        ev = {"ev": "design", "kind": kind, "n": case.get("n", 0), "d": case.get("d", 0), "k": 0, "m": [], "first": [], "exact": True,
              "dims_ok": True, "inbox": True, "exc": "", "supported": True, "levels": [], "ds": [], "ncomp": 0, "reduction": 0,
              "may_raise": False}
        if kind == "pb":
            n = case["n"]
            ev["supported"] = n <= 23
            if case["api"] == "pbdesign":
                st, H = observe(doe.pbdesign, n)
                if st == "exc":
                    ev["exc"] = H
                    return [ev]
                rows = [[float(v) for v in r] for r in H]
                ev["dims_ok"] = all(len(r) == n for r in rows)
                ev["exact"] = all(v in (-1.0, 1.0) for r in rows for v in r)
                ev["m"] = [[int(v) for v in r] for r in rows] if ev["exact"] else []
                return [ev]
            params = make_params(rng, n)
            snap = copy.deepcopy(params)
            pre = []
            if case.get("after_bb") and n >= 3:
                # the same parameter list was used for a Box-Behnken design before (a multi-step use of one problem definition)
                observe(ops.BoxBehnkenGenerator(params).generate)
            st, vs = observe(ops.PlackettBurmanGenerator(params).generate)
            if st == "exc":
                ev["exc"] = vs
                return [ev]
            return [self.coded(ev, vs, snap, n, two_level=True)]
        if kind == "bb":
            n = case["n"]
            if case["api"] == "bbdesign":
                st, H = observe(doe.bbdesign, n, 1)
                if st == "exc":
                    ev["exc"] = H
                    return [ev]
                rows = [[float(v) for v in r] for r in H]
                ev["dims_ok"] = all(len(r) == n for r in rows)
                ev["exact"] = all(v in (-1.0, 0.0, 1.0) for r in rows for v in r)
                ev["m"] = [[int(v) for v in r] for r in rows] if ev["exact"] else []
                return [ev]
            params = make_params(rng, n)
            snap = copy.deepcopy(params)
            if case.get("after_bb"):
                observe(ops.BoxBehnkenGenerator(params).generate)      # generating twice from one definition must give the same design
            st, vs = observe(ops.BoxBehnkenGenerator(params).generate)
            if st == "exc":
                ev["exc"] = vs
                return [ev]
            return [self.coded(ev, vs, snap, n, two_level=False)]
        if kind == "fullfact":
            d = case["d"]
            params = make_params(rng, d)
            if case.get("after_bb") and d >= 3:
                snap = copy.deepcopy(params)
                observe(ops.BoxBehnkenGenerator(params).generate)
                lists_from = snap
            else:
                lists_from = params
            if case["levels"] is None:
                g = ops.FullFactorGenerator(params)
                g.init(case["center"])
                if case.get("zoom"):
                    observe(g.generate)
                    for p in params:
                        lb, ub = p['bounds']
                        p['bounds'] = [lb + (ub - lb) * 0.25, ub - (ub - lb) * 0.125]
                lists = [[p['bounds'][0], (p['bounds'][0] + p['bounds'][1]) / 2.0, p['bounds'][1]] if case["center"] else list(p['bounds'])
                         for p in lists_from]
            else:
                lists = [list(v) for v in case["values"]] if case.get("values") else []
                for p, cnt in zip(params, [] if case.get("values") else case["levels"]):
                    lb, ub = p['bounds']
                    vals = sorted({lb + (ub - lb) * rng.random() for _ in range(cnt)})
                    while len(vals) < cnt:
                        vals.append(vals[-1] + (ub - lb) * 1e-3)
                    rng.shuffle(vals)
                    lists.append(vals)
                g = ops.FullFactorLevelsGenerator(params)
                g.init([list(v) for v in lists])
            st, vs = observe(g.generate)
            if st == "exc":
                ev["exc"] = vs
                return [ev]
            ev["levels"] = [len(v) for v in lists]
            ev["first"] = [[level_index(x, lv) for x in lv] for lv in lists]
            ev["dims_ok"] = all(len(v) == d for v in vs)
            m = []
            for v in vs:
                row = [level_index(v[j], lists[j]) for j in range(min(d, len(v)))]
                if any(r is None for r in row):
                    ev["exact"] = False
                    row = [0 if r is None else r for r in row]
                m.append(row)
            ev["m"] = m
            return [ev]
        # gsd
        levels, red, ncomp = case["levels"], case["reduction"], case["ncomp"]
        ev.update({"levels": levels, "reduction": red, "ncomp": ncomp})
        ev["may_raise"] = min(levels) < red
        st, out = observe(doe.build_gsd, levels, red, ncomp)
        if st == "exc":
            ev["exc"] = out
            ev["may_raise"] = ev["may_raise"] and out.startswith("ValueError")
            return [ev]
        designs = [out] if ncomp == 1 else list(out)
        ev["ds"] = [[[int(v) for v in row] for row in dsg] for dsg in designs]
        # the generator class maps level indices to the supplied values
        values = [[float(10 * j + i) for i in range(l)] for j, l in enumerate(levels)]
        g = ops.GSDGenerator([{'name': 'x%d' % j, 'bounds': [0, 1]} for j in range(len(levels))])
        g.init(values, red, 1)
        st2, vs = observe(g.generate)
        if st2 == "exc":
            ev["exc"] = vs
        elif [[level_index(v[j], values[j]) for j in range(len(levels))] for v in vs] != ev["ds"][0] and ncomp == 1:
            ev["exc"] = "GSDGenerator does not return the first subset design"
        return [ev]

    @staticmethod
    def coded(ev, vs, params, n, two_level):
        vs = [list(map(float, v)) for v in vs]
        ev["dims_ok"] = all(len(v) == n for v in vs)
        ev["inbox"] = inbox(vs, params)
        m = []
        for v in vs:
            row = []
            for j in range(min(n, len(v))):
                lb, ub = params[j]['bounds']
                code = {lb: -1, ub: 1}
                if not two_level:
                    code[(lb + ub) / 2] = 0
                c = code.get(v[j])
                if c is None:
                    ev["exact"] = False
                    c = 0
                row.append(c)
            m.append(row)
        ev["m"] = m
        return ev

    def nontrivial(self, case, trace):
        e = trace[0]
        return len(e["m"]) >= 2 or len(e["ds"]) >= 1

    def key(self, case, trace, fail):
        return "design:%s:%s" % (case["kind"], fail["clause"])

    def sample(self, case, trace):
        e = dict(trace[0])
        e["m"] = e["m"][:4]
        e["ds"] = [d[:3] for d in e["ds"][:2]]
        return {"case": case, "trace": [e]}


def _prod(t):
    p = 1
    for v in t:
        p *= v
    return p


def run(ctx, replay=None):
    return core.run_property(
        ctx, [Factorial()], level="exploration",
        assumptions=["generated coordinates are matched exactly (float equality) against the supplied levels / bounds / mid-points; a coordinate "
                     "that is none of them fails the exact-projection clause",
                     "the TLA+ side has no interesting state space here: TLC checks the predicates on reference constructions (cyclic PB8 / PB12, "
                     "textbook BB3, counting full factorial, a GSD split) and decides each observed design; the exploration is the driver's "
                     "enumeration, exhaustive over the stated configuration ranges"],
        level_rule="configurations: Plackett-Burman for every factor count 1..23 (and 24, 27 which must raise), Box-Behnken 3..8 (10), full "
                   "factorial with / without centre for 1..5 factors and random level lists of sizes 1..5, generalized subset designs over 14 level "
                   "lists x reductions 2..4 x every complementary count; generator classes (on 9 box classes) and the doe build functions; "
                   "every design is projected to level indices / codes and judged by TLC. distinct = distinct projected designs",
        replay=replay)
