"""C12 -- space-filling samplers have their defining coverage structure.

spec: DesignsOps.tla (Latin, HaltonOK, GridOK), Designs.tla (reference constructions), DesignsTrace.tla
code: artap.operators.LHSGenerator / HaltonGenerator / UniformGenerator / RandomGenerator, artap.doe.lhs / halton
"""
import math
from fractions import Fraction

from .. import core, tlc
from ..core import Part, Skip, observe

MC_CFG = "CONSTANTS MaxN = %d\nMaxI = %d\nSPECIFICATION Spec\nINVARIANT LatinHolds\nINVARIANT LatinRejects\nCHECK_DEADLOCK FALSE\n"
BOXES = [[0.0, 1.0], [-3.0, -1.0], [1e-9, 2e-9], [-1e6, 1e6], [100.0, 100.5], [-0.25, 0.75], [2.0, 1024.0], [-1e-3, 1e-3], [5.0, 5.5],
         # bounds whose difference / mid-point is not exactly representable
         [-0.7, 0.1], [0.1, 0.3], [1.0 / 3.0, 3.141592653589793], [1e6 / 7.0, 2e6 / 7.0]]


NAMES = ['width', 'height', 'angle', 'x_10', 'x_2', 'zeta', 'beta', 'alpha', 'mass', 'k', 'y', 'c', 'x_1', 'b', 'a']


def make_params(rng, d):
    # declaration order deliberately differs from the lexicographic order of the names
    params = [{'name': NAMES[i] if i < len(NAMES) else 'q%d' % (99 - i), 'bounds': list(rng.choice(BOXES))} for i in range(d)]
    if rng.random() < 0.2:
        # every bound written as a Python int (bounds: [0, 1], [2, 1024], [-3, -1] ...): the designs are still real-valued
        ints = [[0, 1], [-3, -1], [2, 1024], [-1000000, 1000000], [5, 6], [0, 10]]
        for q in params:
            q['bounds'] = list(rng.choice(ints))
    return params


def unit(x, b):
    return (Fraction(float(x)) - Fraction(b[0])) / (Fraction(b[1]) - Fraction(b[0]))


def inbox(vs, params, tol=1e-12):
    return all(p['bounds'][0] - tol * max(1.0, abs(p['bounds'][0])) <= v <= p['bounds'][1] + tol * max(1.0, abs(p['bounds'][1]))
               for row in vs for v, p in zip(row, params))


class Samplers(Part):
    name = "samplers"
    trace_module = "DesignsTrace"
    trace_shards = 8

    def mc(self, ctx):
        return [tlc.run("Designs", MC_CFG % ((4, 300) if ctx.quick else (5, 2000)), ctx.scratch, workers=8, name="Designs-mc", timeout=2400)]

    def cases(self, ctx):
        rng = ctx.rng
        cases = []
        ns = [1, 2, 3, 5, 8, 17, 40] if ctx.quick else [1, 2, 3, 4, 5, 7, 8, 13, 17, 40, 100, 200, 500, 1000]
        for n in ns:
            for d in ((1, 2, 3, 5, 8) if ctx.quick else (1, 2, 3, 5, 8, 12, 20)):
                for rep in range(2 if ctx.quick else 6):
                    cases.append({"kind": "lhs", "n": n, "d": d, "cseed": rng.randrange(1 << 30)})
        for n in ns:
            for d in (1, 2, 3, 5, 6, 8, 12):
                cases.append({"kind": "halton", "n": n, "d": d, "cseed": rng.randrange(1 << 30)})
        # long Halton sequences: indices beyond the exact powers of the small prime bases (2^10, 3^5 = 243, 5^4, 7^3, 11^2 ... ; thorough 17^3)
        for n, d in ((260, 2), (700, 3), (1100, 5)) if ctx.quick else ((260, 2), (700, 3), (1100, 5), (2500, 6), (7000, 6), (4900, 8), (4900, 10)):      # denominators squared stay below 2^31 (17^4 would not)
            cases.append({"kind": "halton", "n": n, "d": d, "cseed": rng.randrange(1 << 30)})
        for k in (2, 3, 4, 5):
            for d in (1, 2, 3, 4):
                if k ** d <= 700:
                    cases.append({"kind": "grid", "k": k, "d": d, "cseed": rng.randrange(1 << 30)})
        for n in ns + [0]:
            for d in (1, 3, 6):
                cases.append({"kind": "random", "n": n, "d": d, "cseed": rng.randrange(1 << 30)})
        # heterogeneous declarations, always present (not left to the draw above): which parameters declare a precision is the pattern,
        # the ones that do not have narrow boxes no foreign grid fits into
        for pattern in ("PN", "NP", "PNN", "NPN", "PNP", "PPN", "NNP", "PNNPNN"):
            for n in (1, 5) if ctx.quick else (1, 2, 5, 17, 100):
                cases.append({"kind": "random", "n": n, "d": len(pattern), "mix": pattern, "cseed": rng.randrange(1 << 30)})
        return cases

    def run_case(self, ctx, case):
        import random as pyrandom
        import numpy as np
        from artap import operators as ops
        rng = pyrandom.Random(case["cseed"])
        pyrandom.seed(case["cseed"])
        np.random.seed(case["cseed"] % (1 << 31))
        d = case["d"]
        params = make_params(rng, d)
        kind = case["kind"]
        if case.get("mix"):
            withp = [([0.0, 1.0], 0.1), ([-3.0, -1.0], 0.5), ([2.0, 1024.0], 1.0), ([-1e6, 1e6], 10.0), ([0.0, 10.0], 1.0)]
            without = [[0.2, 0.4], [-3.5, -3.1], [0.1, 0.3], [1e-9, 2e-9], [100.0, 100.5], [-0.7, 0.1]]
            for q, c in zip(params, case["mix"]):
                if c == "P":
                    q['bounds'], q['precision'] = (lambda t: (list(t[0]), t[1]))(rng.choice(withp))
                else:
                    q['bounds'] = list(rng.choice(without))
                    q.pop('precision', None)
        elif kind == "random" and case["cseed"] % 2:
            # some parameters declare a rounding precision (one their bounds are multiples of, so rounding cannot leave the box),
            # the others do not: each parameter is generated with its own declaration
            table = {(0.0, 1.0): 0.1, (-3.0, -1.0): 0.5, (2.0, 1024.0): 1.0, (-1e6, 1e6): 10.0, (100.0, 100.5): 0.5, (5.0, 5.5): 0.25}
            for q in params:
                if tuple(q['bounds']) in table and rng.random() < 0.6:
                    q['precision'] = table[tuple(q['bounds'])]
        ev = {"ev": "design", "kind": kind, "n": case.get("n", 0), "d": d, "k": case.get("k", 0), "m": [], "exact": True,
              "dims_ok": True, "inbox": True, "exc": ""}
        if d >= 3 and (case["cseed"] % 5 == 0 or (kind == "grid" and case["cseed"] % 2 == 0)):
            # the same parameter list has just served another design (Box-Behnken, Plackett-Burman, an earlier sampler): the declaration is
            # what it was, and so is the design generated from it now
            import copy
            snap = copy.deepcopy(params)
            for other in (rng.choice([ops.BoxBehnkenGenerator, ops.BoxBehnkenGenerator, ops.PlackettBurmanGenerator, ops.LHSGenerator]),):
                try:
                    g0 = other(params)
                    if other is ops.LHSGenerator:
                        g0.init(3)
                    g0.generate()
                except Exception:      # noqa -- the earlier design is history, not under test here
                    pass
            params_decl = snap
        else:
            params_decl = params
        gen = {"lhs": ops.LHSGenerator, "halton": ops.HaltonGenerator, "grid": ops.UniformGenerator, "random": ops.RandomGenerator}[kind](params)
        gen.init(case["k"] if kind == "grid" else case["n"])
        st, vs = observe(gen.generate)
        if st == "exc":
            ev["exc"] = vs
            return [ev]
        if case["cseed"] % 3 == 0:
            # a generator object is used again (an algorithm run twice, a sweep extended): every call returns a design of its own with the
            # requested number of samples, and what was handed out before is not changed behind the caller's back
            first = [list(map(float, v)) for v in vs]
            st, vs2 = observe(gen.generate)
            if st == "exc":
                ev["exc"] = vs2
                return [ev]
            if [list(map(float, v)) for v in vs] != first:
                ev["exc"] = "the design returned by the first generate() call changed when generate() was called again"
                return [ev]
            vs = vs2
        vs = [list(map(float, v)) for v in vs]
        ev["dims_ok"] = all(len(v) == d for v in vs)
        ev["inbox"] = inbox(vs, params_decl)
        if not ev["dims_ok"]:
            return [ev]
        bs = [p['bounds'] for p in params_decl]
        if kind == "lhs":
            n = len(vs)
            ev["m"] = [[min(n - 1, max(0, int(math.floor(unit(v[j], bs[j]) * n)))) for j in range(d)] for v in vs]
        elif kind == "halton":
            m = []
            for v in vs:
                row = []
                for j in range(d):
                    u = unit(v[j], bs[j])
                    fr = u.limit_denominator(200000)
                    if abs(float(fr - u)) > 1e-9:
                        ev["exact"] = False
                    row.append([fr.numerator, fr.denominator])
                m.append(row)
            ev["m"] = m
        elif kind == "grid":
            k = case["k"]
            m = []
            for v in vs:
                row = []
                for j in range(d):
                    t = unit(v[j], bs[j]) * (k - 1)
                    r = round(t)
                    if abs(float(t - r)) > 1e-7:
                        ev["exact"] = False
                    row.append(int(r))
                m.append(row)
            ev["m"] = m
        else:
            ev["m"] = [[0] * d for _ in vs]
        return [ev]

    def nontrivial(self, case, trace):
        return len(trace[0]["m"]) >= 2

    def key(self, case, trace, fail):
        return "sampler:%s:%s" % (case["kind"], fail["clause"])

    def sample(self, case, trace):
        e = dict(trace[0])
        e["m"] = e["m"][:4]
        return {"case": case, "trace": [e]}


def run(ctx, replay=None):
    return core.run_property(
        ctx, [Samplers()], level="exploration",
        assumptions=["unit coordinates (x - lb)/(ub - lb) are computed in exact rational arithmetic from the returned floats; Halton coordinates "
                     "must lie within 1e-9 of a fraction with denominator <= 200000, grid coordinates within 1e-7 of a level",
                     "independence / uniformity of the random draws is not examined (the property demands only the Latin structure)",
                     "the TLA+ side has no interesting state space here: TLC checks the predicates on reference constructions and decides each "
                     "observed design; the exploration is the driver's enumeration of sample counts, dimensions, boxes and seeds"],
        level_rule="configurations: sample counts {1..200} x dimensions {1..12} x 9 box classes (negative, tiny, huge, offset) x seeds for the LHS, "
                   "Halton (bases up to 37), uniform-grid (k = 2..5) and random generators; every returned design is projected to integers and "
                   "judged by TLC (DesignsTrace). non-trivial = at least two samples; distinct = distinct projected designs",
        replay=replay)
