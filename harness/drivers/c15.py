"""C15 -- single-objective benchmarks: total on their box, optimum where and as documented, no better point.

spec: BenchTrace.tla, event `single` (contract clauses in fixed point, units of 1e-6, tolerance 1e-3): the weakest use of the
      specification in this suite -- TLC only evaluates the three inequalities; the functions are transcendental and the
      search for a better point is numerical (see DESIGN.md section 8).
code: artap.benchmark_functions (19 classes), artap.benchmark_robust (4 classes)
"""
import math

from .. import core, tlc
from ..core import Part, Skip, observe

DIMS = list(range(1, 11)) + [12, 16, 17, 20, 25, 32, 40]     # the constructors accept any dimension
#          class name         dimensions (None = fixed by the class)
CLASSES = [("Rosenbrock", DIMS), ("Ackley", DIMS), ("Sphere", DIMS), ("Schwefel", DIMS), ("ModifiedEasom", DIMS), ("EqualityConstr", DIMS),
           ("Griewank", DIMS), ("Michaelwicz", [2, 5, 10]), ("Perm", DIMS), ("Rastrigin", DIMS), ("SixHump", None), ("Schubert", None),
           ("Zakharov", DIMS), ("XinSheYang", DIMS), ("XinSheYang2", DIMS), ("XinSheYang3", DIMS), ("Booth", None), ("GramacyLee", None),
           ("AlpineFunction", DIMS), ("Synthetic1D", None), ("Synthetic2D", None), ("Synthetic5D", None), ("Synthetic10D", None)]


def construct(name, dim):
    from artap import benchmark_functions as bf
    from artap import benchmark_robust as br
    cls = getattr(bf, name, None) or getattr(br, name)
    prob = cls(dimension=dim) if dim is not None else cls()
    if dim is not None:
        # other instances of the same class (other dimensions) are created afterwards and kept alive: a benchmark object describes its own
        # dimension, whatever was constructed after it
        construct.keep = []
        for d in (1, dim + 1, 2 * dim + 3, 5, 10):
            try:
                construct.keep.append(cls(dimension=d))
            except Exception:      # noqa -- a dimension this class does not accept (Michalewicz: 2, 5, 10 only)
                pass
    return prob


class Contract(Part):
    name = "contract"
    trace_module = "BenchTrace"
    trace_shards = 4

    def mc(self, ctx):
        return []

    def cases(self, ctx):
        rng = ctx.rng
        cases = []
        for name, dims in CLASSES:
            for dim in (dims or [None]):
                if ctx.quick and dims and len(dims) > 3 and dim not in (1, 2, 3, 5, 10, 16, 25):
                    continue
                # one trace per group, so that a listed known finding (matched per trace) cannot hide a different violation
                for group in ("optimum", "samples", "search"):
                    cases.append({"fn": name, "dim": dim, "group": group, "cseed": rng.randrange(1 << 30)})
        return cases

    def run_case(self, ctx, case):
        import random as pyrandom
        import numpy as np
        from scipy.optimize import minimize
        from artap.individual import Individual
        rng = pyrandom.Random(case["cseed"])
        pyrandom.seed(case["cseed"])
        st, prob = observe(construct, case["fn"], case["dim"])
        if st == "exc":
            return [{"ev": "single", "fn": case["fn"], "kind": "construct", "finite": False, "scalar": False, "v": 0, "opt": 0, "dir": "min",
                     "atopt": False, "exc": prob}]
        bounds = [p['bounds'] for p in prob.parameters]
        n = len(bounds)
        direction = "max" if prob.costs[0].get('criteria') == 'maximize' else "min"
        opt = float(prob.global_optimum)
        optfp = int(round(opt * 1e6))
        coords = getattr(prob, "global_optimum_coords", None)
        trace = []
        best = [None]

        def value(x, numpy_scalars=False):
            vec = [np.float64(v) for v in x] if numpy_scalars else [float(v) for v in x]
            return prob.evaluate(Individual(vec))

        def emit(x, kind, atopt=False, numpy_scalars=False):
            st, res = observe(value, x, numpy_scalars)
            ev = {"ev": "single", "fn": case["fn"], "kind": kind, "finite": True, "scalar": True, "v": 0, "opt": optfp, "dir": direction,
                  "atopt": atopt, "exc": "" if st == "ok" else res}
            if st == "ok":
                try:
                    ok = len(res) == 1 and not isinstance(res[0], complex) and np.ndim(res[0]) == 0
                except TypeError:
                    ok = False
                ev["scalar"] = bool(ok)
                if ok:
                    v = float(res[0])
                    ev["finite"] = math.isfinite(v)
                    if ev["finite"]:
                        # values are compared in units of 1e-6; magnitudes above 2000 are clamped (they cannot be near any documented optimum)
                        ev["v"] = int(round(max(-2000.0, min(2000.0, v)) * 1e6))
            trace.append(ev)
            return ev

        mid = [(b[0] + b[1]) / 2 for b in bounds]
        group = case["group"]
        if group == "optimum" and (coords is None or len(coords) != n):
            raise Skip()
        if group == "optimum":
            emit(coords, "optimum", atopt=True)
            emit(coords, "optimum-numpy", atopt=True, numpy_scalars=True)
            for _ in range(6):
                x = [min(b[1], max(b[0], c + rng.uniform(-1e-3, 1e-3) * (b[1] - b[0]))) for c, b in zip(coords, bounds)]
                emit(x, "near-optimum")
        if group == "samples":
            self.samples(ctx, emit, rng, bounds, mid)
            # points with REPEATED coordinate values (diagonals, and the optimum with its tail overwritten by one of its own coordinate
            # values): separable sums are easily mis-indexed when equal values meet
            for c in ([mid[0]] + [b for b in bounds[0]]):
                if all(b[0] <= c <= b[1] for b in bounds):
                    emit([c] * n, "diagonal")
            if n >= 3 and case["fn"] != "XinSheYang3" and len({tuple(b) for b in bounds}) == 1:
                # two-parameter family x = (a, c, c, ..., c): grid, then a bounded 2-D refinement from the best grid points
                from scipy.optimize import minimize as _min
                lo, hi = bounds[0]
                sign = 1.0 if direction == "min" else -1.0

                def g(ac):
                    a, c = min(hi, max(lo, float(ac[0]))), min(hi, max(lo, float(ac[1])))
                    try:
                        v = float(value([a] + [c] * (n - 1))[0])
                    except Exception:      # noqa
                        return 1e30
                    return sign * v if math.isfinite(v) else 1e30
                grid = [lo + (hi - lo) * k / 24.0 for k in range(25)]
                scored = sorted(((g((a, c)), a, c) for a in grid for c in grid))[:3]
                for _, a, c in scored:
                    try:
                        r = _min(g, [a, c], method="Nelder-Mead", options={"maxiter": 80, "xatol": 1e-6, "fatol": 1e-9})
                        a2, c2 = min(hi, max(lo, float(r.x[0]))), min(hi, max(lo, float(r.x[1])))
                    except Exception:      # noqa
                        a2, c2 = a, c
                    emit([a2] + [c2] * (n - 1), "structured-search")
            if coords is not None and len(coords) == n and n >= 2:
                fam = [(j, c) for j in range(1, n) for c in sorted(set(coords))]
                if ctx.quick and len(fam) > 40:
                    fam = rng.sample(fam, 40)
                for j, c in fam:
                    x = list(coords[:j]) + [c] * (n - j)
                    if all(b[0] <= v <= b[1] for v, b in zip(x, bounds)):
                        emit(x, "recombined")
        if group == "search" and case["fn"] == "XinSheYang3":
            raise Skip()
        if group == "search":
            self.search(ctx, emit, value, rng, bounds, coords, n, direction)
        if not trace:
            raise Skip()
        return trace

    @staticmethod
    def samples(ctx, emit, rng, bounds, mid):
        emit(mid, "centre")
        emit([b[0] for b in bounds], "lower-corner")
        emit([b[1] for b in bounds], "upper-corner", numpy_scalars=True)
        for _ in range(8):
            emit([rng.choice(b) for b in bounds], "corner")
        for _ in range(40 if ctx.quick else 400):
            emit([rng.uniform(b[0], b[1]) for b in bounds], "random", numpy_scalars=rng.random() < 0.3)

    @staticmethod
    def search(ctx, emit, value, rng, bounds, coords, n, direction):
        # look for a point that beats the documented optimum: bounded local searches from random starts and from the optimum's surroundings
        import math
        from scipy.optimize import minimize
        if True:
            sign = 1.0 if direction == "min" else -1.0

            def obj(x):
                try:
                    v = float(value(list(x))[0])
                except Exception:      # noqa
                    return 1e30
                return sign * v if math.isfinite(v) else 1e30
            starts = [[rng.uniform(b[0], b[1]) for b in bounds] for _ in range(4 if ctx.quick else 20)]
            if coords is not None and len(coords) == n:
                starts.append([min(b[1], max(b[0], c + 0.01 * (b[1] - b[0]))) for c, b in zip(coords, bounds)])
            # coordinate-wise descent on a grid with zooming (finds the global optimum of separable functions such as Michalewicz,
            # Schwefel, Rastrigin, where gradient searches stop in one of many local basins); 2 sweeps, then polished like the others
            if n <= (10 if ctx.quick else 40):
                x = [(b[0] + b[1]) / 2.0 for b in bounds]
                fx = obj(x)
                for sweep in range(2):
                    for j in range(n):
                        lo, hi = bounds[j]
                        for zoom in range(3):
                            grid = [lo + (hi - lo) * t / 60.0 for t in range(61)]
                            best_v, best_f = x[j], fx
                            for g in grid:
                                y = list(x)
                                y[j] = g
                                fy = obj(y)
                                if fy < best_f:
                                    best_v, best_f = g, fy
                            x[j], fx = best_v, best_f
                            w = (hi - lo) / 30.0
                            lo, hi = max(bounds[j][0], best_v - w), min(bounds[j][1], best_v + w)
                starts.append(x)
                emit(x, "coordinate-search")
            for s in starts:
                try:
                    r = minimize(obj, s, method="L-BFGS-B", bounds=[tuple(b) for b in bounds], options={"maxiter": 60})
                    x = [min(b[1], max(b[0], float(v))) for v, b in zip(r.x, bounds)]
                except Exception:      # noqa
                    continue
                emit(x, "local-search")

    def nontrivial(self, case, trace):
        return any(e["atopt"] for e in trace)

    def key(self, case, trace, fail):
        e = trace[fail["event"] - 1] if fail["event"] > 0 else {}
        dim = case["dim"]
        parity = "" if dim is None else (":odd" if dim % 2 else ":even")
        return "single:%s%s:%s:%s" % (case["fn"], parity if case["fn"] == "ModifiedEasom" else "", e.get("kind", "?").split("-numpy")[0], fail["clause"])

    def sample(self, case, trace):
        return {"case": case, "trace": trace[:3]}


def run(ctx, replay=None):
    return core.run_property(
        ctx, [Contract()], level="exploration",
        assumptions=["values are compared in fixed point (units of 1e-6) with the property's tolerance 1e-3; magnitudes above 2000 are clamped",
                     "the 'no better point' clause is explored by sampling (corners, centre, random points) and bounded L-BFGS-B searches: it can "
                     "find a counterexample but cannot prove absence -- the specification has nothing to enumerate here (transcendental "
                     "formulas, continuous box); this is a contract monitor, the weakest check of the suite",
                     "XinSheYang3 is randomised: every draw is judged on its own"],
        level_rule="each of the 23 single-objective classes x every accepted dimension (quick: 1, 2, 3, 5, 10; Michalewicz 2, 5, 10) is evaluated with "
                   "Python floats and numpy scalars at the documented optimum and 6 neighbours, centre, corners, 40 (400) random points and the end "
                   "points of 5 (21) bounded local searches; TLC evaluates totality, optimum-value and no-better-point per observation. non-trivial = "
                   "the class documents optimum coordinates; distinct = distinct abstract traces",
        replay=replay)
