"""C01 -- constrained Pareto dominance is the textbook strict partial order; epsilon comparator agrees.

spec: DominanceOps.tla (definitions), Dominance.tla (the coded scan as a state machine + laws), DominanceTrace.tla
code: artap.operators.ParetoDominance.compare / EpsilonDominance.compare
"""
import json
import os

from .. import absx, core, tlc
from ..core import Part, Skip, observe

MC_CFG = """CONSTANTS M = %d
Vals = {%s}
Marks = {%s}
SPECIFICATION Spec
INVARIANT ScanIsDefinition
INVARIANT ScanOpIsDefinition
INVARIANT FlagsSound
INVARIANT EpsAgrees
CHECK_DEADLOCK FALSE
"""
GEN_CFG = """CONSTANTS M = %d
Vals = {%s}
Marks <- MarksDef
INIT Init
NEXT Next
CHECK_DEADLOCK FALSE
"""
EPS_POOL = [1e-6, 1e-3, 0.01, 0.1, 0.37, 0.5, 1.0, 3.0, 10.0, 1e3]


class Cmp(Part):
    name = "compare"
    trace_module = "DominanceTrace"

    def mc(self, ctx):
        runs = []
        plan = [(1, "0, 1, 2", "0, 1"), (2, "0, 1, 2", "0, 1"), (3, "0, 1, 2", "0, 1")]
        if not ctx.quick:
            plan += [(4, "0, 1, 2", "0, 1")]
        for m, vals, marks in plan:
            runs.append(tlc.run("Dominance", MC_CFG % (m, vals, marks), ctx.scratch, workers=4, coverage=True,
                                name="Dominance-mc-%d" % m, timeout=1200))
        # negative and larger markers (abs branches, equal-magnitude fall-through): constants via a wrapper module
        runs.append(tlc.run("DominanceMarks", "CONSTANTS M = 2\nVals = {0, 1, 2}\nMarks <- MarksDef\nSPECIFICATION Spec\n"
                            "INVARIANT ScanIsDefinition\nINVARIANT ScanOpIsDefinition\nINVARIANT FlagsSound\nINVARIANT EpsAgrees\n"
                            "CHECK_DEADLOCK FALSE\n", ctx.scratch, workers=4, coverage=True, name="Dominance-mc-marks"))
        # TLAPS side-car: the same laws for arbitrary index sets and integer costs (not the deciding mechanism)
        self.proved = tlc.sidecar(ctx, "tlapm proofs/DominanceLaws.tla (irreflexive, antisymmetric, transitive, marker laws)",
                                  tlc.tlapm, "proofs/DominanceLaws.tla", ctx.scratch)
        return runs

    def cases(self, ctx):
        cases = []
        rng = ctx.rng
        # ---- spec -> code: the model's own domain, all pairs (sampled for the larger dimensions) ----
        for m in (1, 2, 3):
            out = os.path.join(ctx.scratch, "vec%d.json" % m)
            tlc.run("DominanceGenMarks", "CONSTANTS M = %d\nVals = {0, 1, 2}\nMarks <- MarksDef\nINIT Init\nNEXT Next\n"
                    "CHECK_DEADLOCK FALSE\n" % m, ctx.scratch, env={"OUT": out}, workers=1, name="DominanceGen-%d" % m)
            vecs = json.load(open(out))
            os.remove(out)
            pairs = [(p, q) for p in vecs for q in vecs]
            cap = 3000 if ctx.quick else 40000
            if len(pairs) > cap:
                pairs = rng.sample(pairs, cap)
            reps = 2 if ctx.quick else 5
            for p, q in pairs:
                for _ in range(reps):
                    cases.append({"kind": "pair", "p": p, "q": q, "cseed": rng.randrange(1 << 30)})
            triples = 1500 if ctx.quick else 20000
            for _ in range(triples):
                cases.append({"kind": "triple", "p": rng.choice(vecs), "q": rng.choice(vecs), "r": rng.choice(vecs),
                              "cseed": rng.randrange(1 << 30)})
        # ---- code -> spec: random float vectors beyond the model's constants (m <= 8) ----
        n = 2000 if ctx.quick else 40000
        for _ in range(n):
            cases.append({"kind": "random", "m": rng.randint(1, 8), "cseed": rng.randrange(1 << 30)})
        return cases

    @staticmethod
    def concretise(rng, vecs):
        m = len(vecs[0]["c"])
        maps = [absx.monotone_map(rng, 3) for _ in range(m)]
        mstyle = rng.randrange(3)
        out = []
        for v in vecs:
            out.append([maps[i][v["c"][i]] for i in range(m)] + [absx.concrete_marker(rng, v["m"], mstyle)])
        return out

    @staticmethod
    def project(vs):
        try:
            ranks = absx.dense_ranks([v[:-1] for v in vs])
        except ValueError:
            raise Skip()
        return [{"c": r, "m": absx.abstract_marker(v[-1])} for r, v in zip(ranks, vs)]

    def run_case(self, ctx, case):
        import random as pyrandom
        from artap.operators import EpsilonDominance, ParetoDominance
        rng = pyrandom.Random(case["cseed"])
        if case["kind"] == "random":
            m = case["m"]
            pool = [absx.monotone_map(rng, 4) for _ in range(m)]
            marks = [rng.choice([False, True, 0, 0.0, 1, 2.5, -1, -2.5, 1.0]) for _ in range(3)]
            if rng.random() < 0.6:
                marks = [rng.choice([False, True])] * 3 if rng.random() < 0.5 else [rng.choice([False, True]) for _ in range(3)]
            vs = [[rng.choice(pool[i]) for i in range(m)] + [marks[k]] for k in range(3)]
            if rng.random() < 0.15:
                vs[1] = list(vs[0])
        elif case["kind"] == "pair":
            vs = self.concretise(rng, [case["p"], case["q"]])
        else:
            vs = self.concretise(rng, [case["p"], case["q"], case["r"]])
        ab = self.project(vs)
        m = len(vs[0]) - 1
        eps = [rng.choice(EPS_POOL) for _ in range(rng.randint(1, m + 1))]
        if rng.random() < 0.2:
            eps = rng.choice(EPS_POOL)          # scalar epsilon is accepted by the constructor
        par, epc = ParetoDominance(), EpsilonDominance(eps)
        trace = []

        def cmp_ev(kind, comp, i, j, alias=False):
            # alias: a vector compared with ITSELF, the very same list object (an archive offered one of its own members)
            a = list(vs[i])
            st, v = observe(comp.compare, a, a if alias else list(vs[j]))
            ev = {"ev": "cmp", "kind": kind, "p": ab[i], "q": ab[j], "v": -1, "exc": ""}
            if st == "exc":
                ev["exc"] = v
            else:
                ev["v"] = int(v) if isinstance(v, (int, bool)) else -1
            trace.append(ev)
            return ev["v"]
        pq = cmp_ev("pareto", par, 0, 1)
        qp = cmp_ev("pareto", par, 1, 0)
        pp = cmp_ev("pareto", par, 0, 0)
        cmp_ev("eps", epc, 0, 1)
        cmp_ev("eps", epc, 1, 0)
        cmp_ev("eps", epc, 0, 0)
        cmp_ev("pareto", par, 1, 1, alias=True)
        cmp_ev("eps", epc, 1, 1, alias=True)
        # ONE epsilon comparator object lives through the whole check and meets vectors of every length (the default archive's comparator
        # does the same across the problems of a process)
        if not hasattr(type(self), "_shared_eps"):
            type(self)._shared_eps = [EpsilonDominance([0.1, 0.1]), EpsilonDominance(0.05), EpsilonDominance([1e-3, 1.0, 0.37])]
        shared = type(self)._shared_eps[case["cseed"] % 3] if "cseed" in case else type(self)._shared_eps[len(vs[0]) % 3]
        cmp_ev("eps", shared, 0, 1)
        cmp_ev("eps", shared, 1, 0)
        if len(vs) == 3:
            qr = cmp_ev("pareto", par, 1, 2)
            pr = cmp_ev("pareto", par, 0, 2)
            cmp_ev("eps", epc, 1, 2)
            trace.append({"ev": "laws", "pp": pp, "pq": pq, "qp": qp, "qr": qr, "pr": pr})
        else:
            trace.append({"ev": "laws", "pp": pp, "pq": pq, "qp": qp, "qr": 0, "pr": 0})
        return trace

    def nontrivial(self, case, trace):
        return trace[0]["p"] != trace[0]["q"]

    def key(self, case, trace, fail):
        e = trace[fail["event"] - 1] if fail["event"] > 0 else {}
        return "compare:%s:%s" % (e.get("kind", e.get("ev", "?")), fail["clause"])


def run(ctx, replay=None):
    return core.run_property(
        ctx, [Cmp()], level="model_checking",
        assumptions=[
            "objective values are finite floats whose distinct values differ by a relative gap >= 1e-5 (rank abstraction is then exact "
            "for `<`, `>`, `==` and for division by a positive epsilon); near-ties are skipped, never reported",
            "markers are projected to {0, +-1, +-2} preserving zero-ness, sign and magnitude order"],
        level_rule="TLC enumerates the model's vector domain (M<=3, values 0..2, markers {0,1,-1,2,-2}); all pairs (sampled above the cap) "
                   "and random triples are concretised through random strictly increasing maps and compared by the real Pareto and "
                   "epsilon comparators; random float triples with M<=8 are rank-abstracted; every verdict and the three order laws "
                   "per triple are validated by TLC. non-trivial = the two vectors differ; distinct = distinct abstract traces",
        replay=replay)
