"""C10 -- the SQLite store round-trips problem and individuals; one row per id, last synchronisation wins; complete after a run.

spec: StoreApi.tla (public-API grain), Store.tla (transaction grain, shared with C11), StoreTrace.tla
code: artap.datastore.SqliteDataStore, Individual.to_dict / from_dict, ProblemViewDataStore
"""
import json
import math
import os
import sqlite3

from .. import absx, core, tlc
from ..core import Part, Skip, observe

API_CFG = """CONSTANTS Ids = {1, 2, 3}
MaxVer = 3
MaxOps = %d
SPECIFICATION Spec
INVARIANT NoFutureRows
INVARIANT RowsOnlyForRecorded
INVARIANT CompleteAfterSyncAll
PROPERTY NoRegression
VIEW View
CHECK_DEADLOCK FALSE
"""
GEN_CFG = """CONSTANTS Ids = {1, 2, 3}
MaxVer = 3
MaxOps = %d
INIT Init
NEXT Next
INVARIANT Emit
CHECK_DEADLOCK FALSE
"""
STORE_CFG = """CONSTANTS Ids = {1, 2}
Conns = {1, 2}
MaxVer = 2
MaxOps = %d
Deviation = "%s"
SPECIFICATION Spec
INVARIANT NoFutureRows
INVARIANT ReturnedDurable
INVARIANT ReturnedAreDurable
INVARIANT CrashAtomic
INVARIANT LockExclusive
PROPERTY LastWriterWins
CHECK_DEADLOCK FALSE
"""


def canon(x):
    """canonical, bit-exact encoding of JSON-able data (floats by hex, tuples = lists, numpy scalars = Python numbers)"""
    import numpy as np
    if isinstance(x, (bool, np.bool_)):
        return ["b", bool(x)]
    if isinstance(x, (np.floating, float)):
        v = float(x)
        return ["f", "nan" if math.isnan(v) else v.hex()]
    if isinstance(x, (np.integer, int)):
        return ["i", int(x)]
    if isinstance(x, str):
        return ["s", x]
    if x is None:
        return ["n"]
    if isinstance(x, dict):
        return ["d", sorted([str(k), canon(v)] for k, v in x.items())]
    if isinstance(x, (list, tuple, np.ndarray)):
        return ["l", [canon(v) for v in x]]
    if hasattr(x, "id") and hasattr(x, "vector"):      # an Individual inside features is stored as its id
        return ["i", int(x.id)]
    return ["?", repr(x)]


# "nested JSON-able custom data": strings that look like JSON tokens, escapes, quotes, non-ASCII text, and the spellings Python's json
# module uses for non-finite floats -- as VALUES and as KEYS
STRINGS = ["a", "ü", "", "Infinity", "-Infinity", "NaN", "null", "1e999", "x = -Infinity;", 'say "hi"', "back\\slash", "tab\there", "new\nline",
           "\u2603 snow", "{\"a\": 1}", "[1, 2]", "true", "0.1", "  spaced  ", "\x00nul", "'; DROP TABLE individuals; --",
           "2024", "7", "07", "007", "-1", "1e3"]          # digit-only keys stay strings (and stay distinct)


class FP:
    """fingerprints -> small integer keys (per case)"""
    def __init__(self):
        self.keys = {}

    def of(self, ind):
        c = json.dumps(canon({"vector": list(ind.vector), "costs": list(ind.costs), "costs_signed": list(ind.costs_signed),
                              "population_id": ind.population_id, "custom": ind.custom, "features": ind.features}), sort_keys=True)
        if c not in self.keys:
            self.keys[c] = len(self.keys) + 1
        return self.keys[c]


def read_view(db, fp, problem=None):
    """what a read-mode view of the file shows: rows as [id, fingerprint], duplicate count, problem round trip"""
    from artap.problem import ProblemViewDataStore
    ev = {"ev": "read", "readable": True, "rows": [], "dup": 0, "problem_ok": True}
    st, view = observe(ProblemViewDataStore, database_name=db)
    if st == "exc":
        ev["readable"] = False
        ev["why"] = view
        return ev
    ev["rows"] = [[int(i.id), fp.of(i)] for i in view.individuals]
    con = sqlite3.connect(db, timeout=30)
    try:
        ev["dup"] = con.execute("SELECT count(*) - count(DISTINCT id) FROM individuals").fetchone()[0]
    finally:
        con.close()
    if problem is not None:
        ev["problem_ok"] = (view.name == problem.name and type(view.name) is type(problem.name)
                            and getattr(view, "description", problem.description) == problem.description and json.dumps(view.parameters, sort_keys=True) == json.dumps(problem.parameters, sort_keys=True)
                            and json.dumps(view.costs, sort_keys=True) == json.dumps(problem.costs, sort_keys=True))
    return ev


# problem names / descriptions: ordinary text, and text that looks like a number, a JSON token or nothing at all (the store keeps TEXT)
PNAMES = ["store test ü", "2024", "007", "12.50", "1e5", "null", " padded ", "-0", "0x1F", "Infinity"]
NASTY = [0.0, -0.0, 1.0, -1.0, 0.1, 1 / 3, 1e-300, 5e-324, 1.7976931348623157e308, 2.2250738585072014e-308, float("inf"), float("-inf"),
         123456.78901234567, 0.30000000000000004, 1e21, 1e-7, 9007199254740993.0]


def mutate(rng, ind, others):
    import numpy as np
    k = rng.choice([0, 1, 2, 3, 4, 5, 6, 7, 7, 7, 8, 8, 9])
    # in-place changes (the object graph stays the same, only a leaf changes): what algorithms do when they update a feature list,
    # append to custom data or patch one signed cost
    if k == 7 and isinstance(ind.custom, dict) and "nested" in ind.custom:
        ind.custom["nested"]["x"][1].append(rng.choice(NASTY))
        ind.custom["n"] = ind.custom.get("n", 0) + 1
        return
    if k == 8 and ind.costs_signed:
        ind.costs_signed[0] = rng.choice(NASTY)
        return
    if k == 9 and isinstance(ind.features.get("velocity"), list):
        ind.features["velocity"][0] = np.float64(rng.choice(NASTY))
        return
    k = k % 7
    if k == 0:
        ind.costs = [rng.choice(NASTY) for _ in range(rng.randint(1, 3))]
        ind.costs_signed = [rng.choice([1, -1]) * c for c in ind.costs] + [rng.random() < 0.5]
    elif k == 1:
        ind.population_id = rng.randint(-1, 5)
    elif k == 2:
        ind.custom = {"note": rng.choice(STRINGS), rng.choice(STRINGS[1:]) or "k": rng.choice(STRINGS), rng.choice(STRINGS[-6:]): rng.randint(0, 9),
                      rng.choice(STRINGS[-6:]): {"7": 1, "07": 2}, "nested": {"x": [rng.choice(NASTY), [1, 2, {"y": rng.choice(NASTY)}]]},
                      "n": rng.randint(-5, 5), "flag": rng.random() < 0.5}
    elif k == 3:
        ind.features["crowding_distance"] = rng.choice(NASTY)
        ind.features["front_number"] = rng.randint(1, 4)
    elif k == 4:
        ind.features["velocity"] = [np.float64(rng.choice(NASTY)) for _ in range(len(ind.vector))]
        ind.features["best_cost"] = tuple(rng.choice(NASTY) for _ in range(2))
    elif k == 5:
        ind.features["dominate"] = [o.id for o in others[:2]]
        ind.children = list(others[:1])
        ind.parents = list(others[1:2])
    else:
        ind.vector = [np.float64(rng.choice(NASTY)) if rng.random() < 0.5 else rng.choice(NASTY) for _ in range(len(ind.vector))]


class Histories(Part):
    name = "histories"
    trace_module = "StoreTrace"

    def mc(self, ctx):
        runs = [tlc.run("StoreApi", API_CFG % (7 if ctx.quick else 9), ctx.scratch, workers=8, coverage=True, name="StoreApi-mc", timeout=2400),
                tlc.run("Store", STORE_CFG % (7 if ctx.quick else 9, "none"), ctx.scratch, workers=8, coverage=True, name="Store-mc", timeout=2400)]
        for dev in ("insert-ignore", "batched-commit"):
            r = tlc.run("Store", STORE_CFG % (7, dev), ctx.scratch, workers=4, name="Store-dev-" + dev)
            if not r.violated:
                raise tlc.MachineryError("named deviation %s no longer violates the store model" % dev)
        return runs

    def cases(self, ctx):
        rng = ctx.rng
        cases = []
        for ops, num in ((5, 80), (8, 150)) if ctx.quick else ((5, 400), (8, 1500), (12, 1500), (16, 800)):
            r = tlc.run("StoreApi", GEN_CFG % ops, ctx.scratch, workers=1, simulate="num=%d" % num, depth=ops + 1, seed=ctx.seed + ops,
                        name="StoreApi-gen-%d" % ops, timeout=1200)
            behs = sorted({b[1] for b in r.printed("BEH")})
            cap = 250 if ctx.quick else 5000
            if len(behs) > cap:
                behs = rng.sample(behs, cap)
            for b in behs:
                cases.append({"kind": "api", "hist": json.loads(b), "cseed": rng.randrange(1 << 30), "pname": len(cases) % len(PNAMES)})
        for alg in ("nsga2", "epsmoea", "omopso", "smpso", "psoga", "sweep", "scipy", "nlopt"):
            for _ in range(1 if ctx.quick else 25):
                cases.append({"kind": "run", "alg": alg, "n": rng.randint(3, 6), "g": rng.randint(1, 3), "cseed": rng.randrange(1 << 30)})
        return cases

    def run_case(self, ctx, case):
        import random as pyrandom
        rng = pyrandom.Random(case["cseed"])
        db = os.path.join(ctx.scratch, "c10-%d-%d.sqlite" % (os.getpid(), rng.randrange(1 << 30)))
        try:
            if case["kind"] == "api":
                return self.api_history(rng, case, db)
            return self.algorithm_run(rng, case, db)
        finally:
            for ext in ("", "-journal", "-wal", "-shm"):
                try:
                    os.remove(db + ext)
                except OSError:
                    pass

    @staticmethod
    def api_history(rng, case, db):
        from artap.datastore import SqliteDataStore
        from artap.individual import Individual
        # definitions in a declaration order that is NOT the lexicographic order of the names (and more than ten parameters)
        npar = rng.choice([2, 3, 12])
        problem = absx.make_problem(npar, bounds=[[-1.0, 1.0], [0.0, 1e6]] + [[0.0, 1.0]] * (npar - 2), evaluate=lambda i: [0.0],
                                    costs=[{'name': 'mass', 'criteria': 'minimize'}, {'name': 'efficiency', 'criteria': 'maximize'}])
        for i, p in enumerate(problem.parameters):
            p['name'] = ['width', 'angle', 'height'][i] if npar == 3 else 'x_%d' % (i + 1)
        problem.parameters[0]['precision'] = 1e-3
        problem.name = PNAMES[case.get("pname", 0)]
        problem.description = PNAMES[(case.get("pname", 0) * 3 + 1) % len(PNAMES)]
        if rng.random() < 0.3:
            # the path already holds the store of ANOTHER problem (an earlier study): opened with mode="rewrite" the file describes this one
            other = absx.make_problem(1, bounds=[[0.0, 9.0]], evaluate=lambda i: [0.0], costs=[{'name': 'old_cost', 'criteria': 'minimize'}])
            other.name = "previous study"
            other.description = "left over"
            old_store = SqliteDataStore(other, database_name=db)
            leftover = Individual([4.5])
            leftover.costs, leftover.costs_signed = [1.0], [1.0, True]
            other.individuals.append(leftover)
            old_store.sync_all()
            old_store.destroy()
            store = SqliteDataStore(problem, database_name=db, mode="rewrite")
        elif rng.random() < 0.3:
            # the single-connection mode (thread_safe=False): the same round-trip contract; the view is opened after the store was destroyed
            store = SqliteDataStore(problem, database_name=db, thread_safe=False)
        else:
            store = SqliteDataStore(problem, database_name=db)
        problem.data_store = store
        fp = FP()
        inds = {}
        trace = []
        shared = [rng.choice(NASTY), rng.choice(NASTY)]      # several individuals may share one design vector
        for op in case["hist"]:
            a, d = op["a"], op["d"]
            if a == "create":
                ind = Individual((list(shared) if rng.random() < 0.5 else [rng.choice(NASTY), rng.choice(NASTY)]) + [0.5] * (npar - 2))
                if rng.random() < 0.6:
                    # born with data, so that the first change after a synchronisation can be an in-place one
                    ind.costs = [rng.choice(NASTY), rng.choice(NASTY)]
                    ind.costs_signed = [ind.costs[0], -ind.costs[1], True]
                    ind.custom = {"note": "init", "nested": {"x": [0.5, [1, 2, {"y": 1.5}]]}, "n": 0, "flag": False}
                inds[d] = ind
                problem.individuals.append(ind)
                trace.append({"ev": "mutate", "id": int(ind.id), "fp": fp.of(ind)})
            elif a == "mutate":
                mutate(rng, inds[d], [i for k, i in inds.items() if k != d])
                trace.append({"ev": "mutate", "id": int(inds[d].id), "fp": fp.of(inds[d])})
            elif a == "sync":
                st, res = observe(store.sync_individual, inds[d])
                trace.append({"ev": "sync", "id": int(inds[d].id), "fp": fp.of(inds[d]), "exc": "" if st == "ok" else res})
            else:
                st, res = observe(store.sync_all)
                trace.append({"ev": "syncall", "items": [[int(i.id), fp.of(i)] for i in problem.individuals], "exc": "" if st == "ok" else res})
            if a in ("sync", "syncall") and rng.random() < 0.6:
                trace.append(read_view(db, fp, problem))
        trace.append(read_view(db, fp, problem))
        store.destroy()
        return trace

    @staticmethod
    def algorithm_run(rng, case, db):
        import random as pyrandom
        import numpy as np
        from artap.datastore import SqliteDataStore
        pyrandom.seed(case["cseed"])
        np.random.seed(case["cseed"] % (1 << 31))
        alg_name = case["alg"]
        multi = alg_name in ("nsga2", "epsmoea", "omopso", "smpso", "psoga")
        costs = [{'name': 'f_1', 'criteria': 'minimize'}] + ([{'name': 'f_2', 'criteria': 'minimize'}] if multi else [])

        def f(ind):
            x = ind.vector
            return [x[0] ** 2 + x[1], (1 + x[1]) / (0.5 + abs(x[0]))][:len(costs)]
        problem = absx.make_problem(2, bounds=[[-1.0, 1.0], [0.0, 2.0]], costs=costs, evaluate=f)
        problem.parameters[0]['name'], problem.parameters[1]['name'] = 'width', 'angle'
        for p in problem.parameters:
            p['initial_value'] = 0.3
        store = SqliteDataStore(problem, database_name=db)
        problem.data_store = store
        if alg_name == "nsga2":
            from artap.algorithm_NSGAII import NSGAII as A
        elif alg_name == "epsmoea":
            from artap.algorithm_genetic import EpsMOEA as A
        elif alg_name == "omopso":
            from artap.algorithm_swarm import OMOPSO as A
        elif alg_name == "smpso":
            from artap.algorithm_swarm import SMPSO as A
        elif alg_name == "psoga":
            from artap.algorithm_swarm import PSOGA as A
        if alg_name == "sweep":
            from artap.algorithm_sweep import SweepAlgorithm
            from artap.operators import LHSGenerator
            g = LHSGenerator(problem.parameters)
            g.init(case["n"])
            alg = SweepAlgorithm(problem, generator=g)
        elif alg_name == "scipy":
            from artap.algorithm_scipy import ScipyOpt
            alg = ScipyOpt(problem)
            alg.options['n_iterations'] = case["n"]
        elif alg_name == "nlopt":
            from artap.algorithm_nlopt import NLopt
            alg = NLopt(problem)
            alg.options['n_iterations'] = case["n"] + 2
        else:
            alg = A(problem)
            alg.options['max_population_number'] = case["g"]
            alg.options['max_population_size'] = case["n"]
        alg.options['verbose_level'] = 0
        fp = FP()
        alg.run()
        # the run has finished: the harness replays "what was synchronised last" as one syncall of the final data and demands that
        # the file shows exactly that
        trace = [{"ev": "syncall", "items": [[int(i.id), fp.of(i)] for i in problem.individuals], "exc": ""},
                 {"ev": "final", "recorded": [[int(i.id), fp.of(i)] for i in problem.individuals]}]
        rd = read_view(db, fp, problem)
        # rows of individuals that were synchronised but never recorded in problem.individuals are not covered by the property
        rec = {int(i.id) for i in problem.individuals}
        rd["rows"] = [r for r in rd["rows"] if r[0] in rec]
        trace.append(rd)
        store.destroy()
        return trace

    def nontrivial(self, case, trace):
        return sum(1 for e in trace if e["ev"] in ("sync", "syncall")) >= 2 or case["kind"] == "run"

    def key(self, case, trace, fail):
        return "store:%s:%s" % (case.get("alg", case["kind"]), fail["clause"])

    def sample(self, case, trace):
        return {"case": case if case["kind"] == "run" else {"kind": "api", "hist": case["hist"][:6]}, "trace": trace[:5]}


def run(ctx, replay=None):
    return core.run_property(
        ctx, [Histories()], level="model_checking",
        assumptions=["identity of stored and read-back data is decided by a canonical bit-exact fingerprint (floats by hex, tuples = lists, numpy "
                     "scalars = Python numbers, individuals inside features = their ids) computed by the harness: TLA+ states the upsert / "
                     "completeness / identity law, the encode-decode fidelity itself is the projection's equality",
                     "custom data uses string keys (JSON); NaN is not generated (the property speaks of finite or infinite floats)"],
        level_rule="TLC checks the API-grain and the transaction-grain store models (3 ids, 2 connections, <=7 (9) operations, two named deviations must "
                   "fail); TLC-simulated API histories (create / mutate / sync_individual / sync_all over 3 individuals, <=8 (12) operations) are "
                   "executed on a real SqliteDataStore with individuals drawn from a pool of nasty values (+-inf, denormals, -0.0, 17-digit floats, "
                   "numpy scalars, nested custom data, references, shared vectors) and read back through ProblemViewDataStore; finished runs of 8 "
                   "algorithms are read back and compared with the live individuals; StoreTrace judges every read. non-trivial = >= 2 "
                   "synchronisations or a whole run; distinct = distinct abstract traces",
        replay=replay)
