"""X03 (extension, not a listed property) -- the life of design objects: ids, copies, sync, dictionary round trips and who shares which list.

spec: IndividualLife.tla (heap of objects and list references; named deviations SharedCosts, SyncAliases, SignedPassedThrough,
      StateBecomesString), IndividualLifeGen.tla (operation scripts), IndividualLifeTrace.tla (whole projected heap after every operation)
code: artap.individual.Individual (constructor, copy, sync, to_dict / from_dict), artap.algorithm_NSGAII.IndividualNSGAII.copy
"""
import json

from .. import core, tlc
from ..core import Part, observe

MC_CFG = """CONSTANTS MaxObjs = %d
MaxOps = %d
Vals = {0, 1}
SPECIFICATION Spec
INVARIANT TypeOK
INVARIANT CounterAhead
INVARIANT CtorIdsUnique
INVARIANT KindsApart
INVARIANT BestKind
PROPERTY CopyIsolatesPosition
PROPERTY MoveReachesBestOnlyThroughAlias
PROPERTY VecSharedOnlyBySync
PROPERTY FeatSharedOnlyBySync
PROPERTY JsonIsolates
CHECK_DEADLOCK FALSE
"""
GEN_CFG = """CONSTANTS MaxObjs = %d
MaxOps = %d
Vals = {0, 1, 2}
INIT GInit
NEXT GNext
INVARIANT Emit
CHECK_DEADLOCK FALSE
"""
TRACE_CFG = "CONSTANTS MaxObjs = 1000\nMaxOps = 1000000\nVals = {0, 1, 2, 3, 4, 5, 6, 7, 8, 9}\n" + core.TRACE_CFG


class Life(Part):
    name = "object-life"
    trace_module = "IndividualLifeTrace"
    trace_cfg = TRACE_CFG
    coverage_strict = False

    def mc(self, ctx):
        runs = [tlc.run("IndividualLife", MC_CFG % ((3, 5) if ctx.quick else (3, 7)), ctx.scratch, workers=8, coverage=True,
                        name="IndividualLife-mc", timeout=3000)]
        # named deviation BestAliasesPosition: the invariant a reader would expect must be refuted by TLC (the model keeps its teeth)
        r = tlc.run("IndividualLife", MC_CFG.replace("INVARIANT BestKind", "INVARIANT BestIsASnapshot") % (2, 3), ctx.scratch, workers=4,
                    name="IndividualLife-snapshot")
        if r.violated != "BestIsASnapshot":
            raise tlc.MachineryError("BestIsASnapshot is no longer refuted (got %s)" % r.violated)
        r = tlc.run("IndividualLife", MC_CFG.replace("INVARIANT BestKind", "INVARIANT ParticlesCanBeCopied") % (2, 3), ctx.scratch, workers=4,
                    name="IndividualLife-copykey")
        if r.violated != "ParticlesCanBeCopied":
            raise tlc.MachineryError("ParticlesCanBeCopied is no longer refuted (got %s)" % r.violated)
        return runs

    def cases(self, ctx):
        cases = []
        seen = set()
        plan = ((3, 5, 300), (4, 8, 300)) if ctx.quick else ((3, 6, 3000), (4, 9, 3000), (5, 12, 3000))
        for mo, ops, num in plan:
            r = tlc.run("IndividualLifeGen", GEN_CFG % (mo, ops), ctx.scratch, workers=1, simulate="num=%d" % num, depth=ops + 1,
                        seed=ctx.seed + mo, name="IndividualLifeGen-%d-%d" % (mo, ops))
            behs = r.printed("BEH")
            if not behs:
                raise tlc.MachineryError("IndividualLifeGen emitted no behaviours")
            for b in behs:
                if b[1] not in seen:
                    seen.add(b[1])
                    cases.append({"kind": "beh", "ops": json.loads(b[1])})
        # beyond the model's bounds: long random scripts
        rng = ctx.rng
        for _ in range(40 if ctx.quick else 600):
            ops, n = [], 0
            for _ in range(rng.randint(5, 40)):
                if n == 0 or rng.random() < 0.2:
                    ops.append({"op": "new", "i": 0, "j": 0, "x": rng.randrange(10), "cls": rng.choice(["base", "nsga", "swarm", "swarm"])})
                    n += 1
                    continue
                op = rng.choice(["copy", "copynsga", "copyswarm", "initpbest", "initpbest", "tofrom", "tofromjson", "sync", "setvec", "setcost", "setsigned", "setvec", "setcost", "setfeat", "setfeat"])
                i = rng.randint(1, n)
                j = rng.randint(1, n)
                if op == "sync" and i == j:
                    continue
                ops.append({"op": op, "i": i, "j": j if op == "sync" else 0, "x": rng.randrange(10), "cls": ""})
                if op in ("copy", "copynsga", "copyswarm", "tofrom", "tofromjson"):
                    n += 1
            cases.append({"kind": "random", "ops": ops})
        return cases

    def run_case(self, ctx, case):
        from enum import Enum
        from artap.individual import Individual
        from artap.algorithm_NSGAII import IndividualNSGAII
        from artap.algorithm_swarm import IndividualSwarm, SwarmAlgorithm
        base = Individual.counter
        objs = []
        tokens = {}          # id(list object) -> token (lists are kept alive in `keep`, so ids are never reused)
        keep = []
        trace = []

        def tok(lst):
            if id(lst) not in tokens:
                keep.append(lst)
                tokens[id(lst)] = len(keep)
            return tokens[id(lst)]

        def content(lst):
            if isinstance(lst, dict):
                return [int(lst["k"])] if "k" in lst else []
            return [int(v) if float(v) == int(v) else -999 for v in lst]

        def cls_of(o):
            return {IndividualNSGAII: "nsga", Individual: "base", IndividualSwarm: "swarm"}.get(type(o), type(o).__name__)

        def best_tok(o):
            b = o.features.get("best_vector") if isinstance(o.features, dict) else None
            return 0 if b is None else tok(b)

        def snapshot(op, exc=""):
            recs = []
            for o in objs:
                recs.append({"id": int(o.id) - base, "vec": tok(o.vector), "costs": tok(o.costs), "signed": tok(o.costs_signed), "feat": tok(o.features), "best": best_tok(o), "haskey": isinstance(o.features, dict) and "best_vector" in o.features,
                             "cls": cls_of(o), "pop": int(o.population_id), "state": o.state.name if isinstance(o.state, Enum) else str(o.state)})
            ev = dict(op)
            ev.update({"ev": "op", "exc": exc, "counter": Individual.counter - base, "objs": recs,
                       "lists": [content(lst) for lst in keep]})
            trace.append(ev)

        for op in case["ops"]:
            name, i, j, x = op["op"], op["i"], op["j"], op["x"]
            if case["kind"] == "random" and (i > len(objs) or j > len(objs) or (name == "copynsga" and type(objs[i - 1]) is not IndividualNSGAII)
                                             or (name == "copyswarm" and (type(objs[i - 1]) is not IndividualSwarm or "best_vector" not in objs[i - 1].features))):
                continue        # not enabled in the model either (random scripts only: an earlier skipped operation shifted the numbering)

            def body():
                if name == "new":
                    objs.append({"nsga": IndividualNSGAII, "swarm": IndividualSwarm}.get(op["cls"], Individual)([float(x)]))
                elif name == "copy":
                    objs.append(Individual.copy(objs[i - 1]))                 # the base-class copy (keeps the class)
                elif name in ("copynsga", "copyswarm"):
                    objs.append(objs[i - 1].copy())
                elif name == "initpbest":
                    SwarmAlgorithm.init_pbest([objs[i - 1]])
                elif name == "tofrom":
                    objs.append(Individual.from_dict(objs[i - 1].to_dict()))
                elif name == "tofromjson":
                    objs.append(Individual.from_dict(json.loads(json.dumps(objs[i - 1].to_dict()))))
                elif name == "sync":
                    objs[i - 1].sync(objs[j - 1])
                elif name == "setvec":
                    objs[i - 1].vector[0] = float(x)
                elif name == "setcost":
                    objs[i - 1].costs.append(float(x))
                elif name == "setsigned":
                    objs[i - 1].costs_signed.append(float(x))
                elif name == "setfeat":
                    objs[i - 1].features["k"] = x
            if name in ("setcost", "setsigned"):
                lst = objs[i - 1].costs if name == "setcost" else objs[i - 1].costs_signed
                if len(lst) >= 2:
                    continue    # the model bounds these lists at two entries
            st, res = observe(body)
            snapshot(op, "" if st == "ok" else res)
        if not trace:
            raise core.Skip()
        return trace

    def nontrivial(self, case, trace):
        last = trace[-1]["objs"]
        lists = [o[k] for o in last for k in ("vec", "costs", "signed", "feat")]
        return len(set(lists)) < len(lists)          # some list is shared at the end

    def key(self, case, trace, fail):
        e = trace[fail["event"] - 1] if fail["event"] > 0 else {}
        return "life:%s:%s" % (e.get("op", "?"), fail["clause"])

    def sample(self, case, trace):
        return {"case": {"kind": case["kind"], "ops": case["ops"][:6]}, "trace": trace[:3]}


def run(ctx, replay=None):
    return core.run_property(
        ctx, [Life()], level="model_checking",
        assumptions=["documents the behaviour of the pinned tree, including four named deviations a reader might not expect (shared costs after "
                     "IndividualNSGAII.copy, aliasing after sync, costs_signed passed through to_dict, state turned into a string by from_dict); "
                     "not a listed property",
                     "list identity is observed with id() on lists kept alive by the harness; tokens are numbered in order of first appearance, "
                     "which coincides with the model's allocation order exactly when the code allocates and shares as the model does"],
        level_rule="TLC checks IndividualLife exhaustively (3 objects, 5 (7) operations, 2 values); TLC-simulated behaviours (up to 5 objects / 12 "
                   "operations) and random scripts up to 40 operations are executed on real Individual / IndividualNSGAII objects and the whole "
                   "projected heap after every operation is compared with the model by TLC. non-trivial = some list is shared at the end",
        replay=replay)
