"""X05 (extension, not a listed property) -- crash behaviour of the NON-default single-connection store mode (thread_safe=False).

C11 quantifies over the default thread-safe mode.  The other mode keeps one connection and switches the rollback journal off.
spec: Store.tla / StoreTrace.tla as for C11 (the same crash contract is demanded; what the pinned tree does not deliver is listed as an
      observation in extras_findings.json, never as a finding of a listed property)
code: SqliteDataStore(thread_safe=False); forked writers killed at every crash point, as in C11
"""
from .. import core, tlc
from .c10 import STORE_CFG
from .c11 import CrashesImpl


class NtsCrashes(CrashesImpl):
    coverage_strict = False
    name = "crash-points-single-connection"
    sigkill_scenarios = ["serial-nts", "nsga2-nts"]

    def mc(self, ctx):
        # the model of this mode is Store with Deviation = "journal-off": TLC must refute CrashAtomic (Spill, then Crash), which is exactly the
        # observation recorded in extras_findings.json; every other invariant of the store model still holds in this mode
        r = tlc.run("Store", STORE_CFG % (6, "journal-off"), ctx.scratch, workers=4, name="Store-journal-off")
        if r.violated != "CrashAtomic":
            raise tlc.MachineryError("journal-off: expected CrashAtomic to be refuted, got %s" % r.violated)
        r2 = tlc.run("Store", STORE_CFG.replace("INVARIANT CrashAtomic\n", "") % (7, "journal-off"), ctx.scratch, workers=8, name="Store-journal-off-rest")
        return [r2]

    def scenarios(self, ctx):
        return ["serial-nts", "contended-nts", "nsga2-nts", "bulk-nts"]


def run(ctx, replay=None):
    return core.run_property(
        ctx, [NtsCrashes()], level="fault_enumeration",
        assumptions=["same crash points, recovery and clauses as C11, applied to the single-connection mode; not a listed property"],
        level_rule="serial batch, contended batch, NSGA-II 3x2 and the bulk transaction with thread_safe=False: one forked writer per crash point",
        replay=replay)
