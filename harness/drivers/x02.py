"""X02 (extension, not a listed property) -- generation bookkeeping of PSOGA as it actually behaves (named deviation GrowingSwarm).

spec: RunTrace.tla, event `psoga`; code: artap.algorithm_swarm.PSOGA
"""
from .. import core, jobrec
from ..core import Part, observe
from .c06 import dynamic_registration


class Psoga(Part):
    name = "psoga-runs"
    trace_module = "RunTrace"

    def cases(self, ctx):
        rng = ctx.rng
        return [{"n": rng.randint(2, 10), "g": rng.randint(1, 6), "m": rng.randint(1, 2), "dim": rng.randint(1, 3), "cseed": rng.randrange(1 << 30)}
                for _ in range(25 if ctx.quick else 300)]

    def run_case(self, ctx, case):
        import random as pyrandom
        from artap.algorithm_swarm import PSOGA
        pyrandom.seed(case["cseed"])
        rec = jobrec.Rec(dim=case["dim"], m=case["m"], bounds=[[-2.0, 3.0]] * case["dim"], mode="serial")
        dynamic_registration(rec)
        alg = PSOGA(rec.problem)
        alg.options['max_population_number'] = case["g"]
        alg.options['max_population_size'] = case["n"]
        alg.options['verbose_level'] = 0
        st, res = observe(alg.run)
        pops = rec.problem.populations()
        tags = sorted(pops)
        return [{"ev": "psoga", "n": case["n"], "g": case["g"], "exc": "" if st == "ok" else res,
                 "nevalok": sum(1 for e in rec.events if e["ev"] == "ret" and e["out"] == "ok"),
                 "tags": [int(t) for t in tags], "sizes": [len(pops[t]) for t in tags]}]

    def key(self, case, trace, fail):
        return "psoga:%s" % fail["clause"]


def run(ctx, replay=None):
    return core.run_property(
        ctx, [Psoga()], level="exploration",
        assumptions=["documents the behaviour of the pinned tree (the swarm grows by the two GA offspring per generation); not a listed property"],
        level_rule="PSOGA runs with N 2..10, G 1..6, 1-2 objectives, 1-3 parameters; tags, sizes N + 2t and the evaluation budget are judged by TLC",
        replay=replay)
