"""C04 -- the archive holds exactly the non-dominated set of everything ever offered; truncate keeps the largest.

spec: Archive.tla (implementation-shaped add + truncate), ArchiveGen.tla (behaviours), ArchiveTrace.tla (validator)
code: artap.archive.Archive with ParetoDominance / EpsilonDominance
"""
import json
import math

from .. import absx, core, tlc
from ..core import Part, Skip, observe

MC_CFG = """CONSTANTS M = 2
Vals = {0, 1, 2}
Marks = {0, 1}
MaxAdds = %d
MaxTrunc = %d
Comparator = "%s"
SPECIFICATION Spec
INVARIANT InvND
INVARIANT InvIncr
INVARIANT InvOnce
INVARIANT InvMutual
INVARIANT InvCovered
INVARIANT ResultLaw
INVARIANT TruncSize
CHECK_DEADLOCK FALSE
"""
GEN_CFG = """CONSTANTS M = %d
Vals = {0, 1, 2}
Marks = {0, 1}
MaxAdds = %d
MaxTrunc = %d
Comparator = "pareto"
INIT GInit
NEXT GNext
INVARIANT Emit
CHECK_DEADLOCK FALSE
"""
EPS_POOL = [1e-6, 1e-3, 0.01, 0.1, 0.37, 1.0, 10.0]


def make_comparator(rng, kind, m):
    from artap.operators import EpsilonDominance, ParetoDominance
    if kind == "pareto":
        return ParetoDominance()
    return EpsilonDominance([rng.choice(EPS_POOL) for _ in range(rng.randint(1, m))])


def run_history(rng, kind, ops):
    """ops: list of ("add", float vector incl. marker, feature value) / ("trunc", size); returns the event trace."""
    from artap.archive import Archive
    Individual = absx.individual_class(rng)
    vectors = [o[1] for o in ops if o[0] == "add"]
    m = len(vectors[0]) - 1
    try:
        ranks = absx.dense_ranks([v[:-1] for v in vectors])
    except ValueError:
        raise Skip()
    feats = sorted({o[2] for o in ops if o[0] == "add"})
    frank = {f: i for i, f in enumerate(feats)}
    if kind == "eps" and rng.random() < 0.3:
        # the default archive: Archive() with its built-in epsilon comparator -- ONE comparator object shared by every default archive of the
        # process, whatever the number of objectives of the problems it meets
        arch = Archive()
    else:
        arch = Archive(make_comparator(rng, kind, m))
    proj = {}
    trace = []
    k = 0
    # design vectors: the archive must not care whether two members share their design vector (noisy / robust objectives,
    # hand-built individuals) -- so some histories reuse 1..3 design vectors for all members
    npool = rng.choice([1, 2, 3, 10 ** 6])
    for o in ops:
        if o[0] == "add":
            ind = Individual([float(k % npool if npool > 3 else rng.randrange(npool)), 0.5])
            ind.costs_signed = list(o[1])
            ind.features["feat"] = o[2]
            proj[id(ind)] = ({"c": ranks[k], "m": absx.abstract_marker(o[1][-1])}, frank[o[2]])
            k += 1
            how = rng.choice(["add", "add", "add", "append", "extend", "iadd", "iadd-list"])
            if how == "add":
                st, res = observe(arch.add, ind)
            elif how == "append":
                st, res = observe(arch.append, ind)
            elif how == "extend":
                st, res = observe(arch.extend, [ind])
            elif how == "iadd":
                st, res = observe(arch.__iadd__, ind)
            else:
                st, res = observe(arch.__iadd__, [ind])
            ev = {"ev": "add", "comp": kind, "x": proj[id(ind)][0], "res": False, "inserted": False, "after": [], "exc": ""}
            if st == "exc":
                ev["exc"] = res
            else:
                ev["inserted"] = any(mem is ind for mem in arch)
                # only add() reports success; the other entry points are judged on the content alone
                ev["res"] = bool(res) if how == "add" else ev["inserted"]
                ev["after"] = [proj[id(mem)][0] for mem in arch]
            trace.append(ev)
        else:
            before = [proj[id(mem)][1] for mem in arch]
            st, res = observe(arch.truncate, o[1], "feat")
            ev = {"ev": "trunc", "size": o[1], "before": before, "after": [], "members": [], "exc": ""}
            if st == "exc":
                ev["exc"] = res
            else:
                ev["after"] = [proj[id(mem)][1] for mem in arch]
                ev["members"] = [proj[id(mem)][0] for mem in arch]
            trace.append(ev)
    if len(arch) != len(list(arch)):
        trace.append({"ev": "len-mismatch"})
    return trace


class Hist(Part):
    name = "histories"
    trace_module = "ArchiveTrace"
    trace_shards = 8

    def mc(self, ctx):
        runs = []
        n = 4 if ctx.quick else 5
        for comp in ("pareto", "eps"):
            runs.append(tlc.run("Archive", MC_CFG % (n, 1, comp), ctx.scratch, workers=8, coverage=True,
                                name="Archive-mc-" + comp, timeout=2400))
        if not ctx.quick:
            runs.append(tlc.run("Archive", MC_CFG % (6, 0, "pareto"), ctx.scratch, workers=16, coverage=False,
                                name="Archive-mc-6", timeout=3000))
        # TLAPS side-car (not the deciding mechanism): "content = non-dominated part of everything offered" is an inductive invariant of
        # the insertion rule for arbitrary universes, arbitrary set sizes and any irreflexive transitive relation -- every history length
        tlc.sidecar(ctx, "tlapm proofs/ArchiveLaws.tla (insertion keeps mutual non-domination, rejected are dominated or equal, content = "
                    "NonDominated(offered) is inductive)", tlc.tlapm, "proofs/ArchiveLaws.tla", ctx.scratch)
        return runs

    def cases(self, ctx):
        rng = ctx.rng
        cases = []
        seen = set()

        def take(r, cap=None):
            behs = [b[1] for b in r.printed("BEH") if b[1] not in seen]
            if cap and len(behs) > cap:
                behs = rng.sample(behs, cap)
            for b in behs:
                seen.add(b)
                for kind in ("pareto", "eps"):
                    cases.append({"kind": "beh", "comp": kind, "ops": json.loads(b), "cseed": rng.randrange(1 << 30)})
        # exhaustive: every history of <=3 additions over the 18 model vectors (thorough: 4)
        n = 3 if ctx.quick else 4
        r = tlc.run("ArchiveGen", GEN_CFG % (2, n, 0), ctx.scratch, workers=4, name="ArchiveGen-all", timeout=1800)
        take(r, cap=None if ctx.quick else 60000)
        # simulated longer histories with truncations in between, also 3 objectives
        for m, adds, num in ((2, 6, 60), (3, 5, 30)) if ctx.quick else ((2, 7, 600), (3, 6, 300)):
            r = tlc.run("ArchiveGen", GEN_CFG % (m, adds, 2), ctx.scratch, workers=1, simulate="num=%d" % num,
                        depth=adds + 3, seed=ctx.seed + m, name="ArchiveGen-sim%d" % m, timeout=1800)
            take(r, cap=3000 if ctx.quick else 30000)
        # code -> spec: long random histories beyond the model's constants
        for _ in range(60 if ctx.quick else 600):
            cases.append({"kind": "random", "comp": rng.choice(["pareto", "eps"]), "m": rng.randint(1, 3),
                          "n": rng.randint(30, 120 if ctx.quick else 300), "cseed": rng.randrange(1 << 30)})
        return cases

    def run_case(self, ctx, case):
        import random as pyrandom
        rng = pyrandom.Random(case["cseed"])
        if case["kind"] == "beh":
            m = len(next(o for o in case["ops"] if o["op"] == "add")["x"]["c"])
            maps = [absx.monotone_map(rng, 3) for _ in range(m)]
            mstyle = rng.randrange(3)
            fmap = absx.monotone_map(rng, 3)
            if rng.random() < 0.3:
                fmap[-1] = math.inf
            ops = []
            for o in case["ops"]:
                if o["op"] == "add":
                    v = [maps[i][o["x"]["c"][i]] for i in range(m)] + [absx.concrete_marker(rng, o["x"]["m"], mstyle)]
                    ops.append(("add", v, fmap[o["x"]["c"][0]]))
                else:
                    ops.append(("trunc", o["size"]))
        else:
            m, n = case["m"], case["n"]
            close = rng.random() < 0.2
            pools = [absx.monotone_map(rng, rng.randint(3, 6), style="close" if close else None) for _ in range(m)]
            if rng.random() < 0.25:
                for pl in pools:                     # infinite costs shared by several offers
                    if rng.random() < 0.6:
                        pl.append(math.inf)
            fpool = absx.monotone_map(rng, 5) + [math.inf]
            mstyle_r = rng.randrange(3)
            ops = []
            for k in range(n):
                # markers: feasible mostly; infeasible ones of either sign and two magnitudes (one concrete value per abstract class)
                v = [rng.choice(p) for p in pools] + [absx.concrete_marker(rng, rng.choice([0, 0, 0, 0, 0, 1, -1, 1, -1, 2, -2]), mstyle_r)]
                ops.append(("add", v, rng.choice(fpool)))
                if rng.random() < 0.05:
                    ops.append(("trunc", rng.choice([0, 1, 1, 2, 3, 4, 6])))
        return run_history(rng, case["comp"], ops)

    def nontrivial(self, case, trace):
        # at least one rejection or eviction happened
        prev = 0
        for e in trace:
            if e["ev"] == "add":
                if not e["res"] or len(e["after"]) <= prev:
                    return True
                prev = len(e["after"])
        return False

    def key(self, case, trace, fail):
        e = trace[fail["event"] - 1] if fail["event"] > 0 else {}
        return "archive:%s:%s:%s" % (case.get("comp"), e.get("ev", "?"), fail["clause"])

    def sample(self, case, trace):
        return {"case": {k: v for k, v in case.items() if k != "ops"}, "trace": trace[:4]}


def run(ctx, replay=None):
    return core.run_property(
        ctx, [Hist()], level="model_checking",
        assumptions=["cost values differ by relative gaps >= 1e-5 or are identical floats (rank abstraction exact, epsilon scaling order-preserving)",
                     "feature values are projected to ranks (inf is the top rank)"],
        level_rule="every history of <=3 (thorough 4) additions over the model's 18 vectors, simulated longer histories with truncations "
                   "(2 and 3 objectives), each for the Pareto and the epsilon comparator, plus random histories of 30-300 additions; all "
                   "run on the real Archive and validated event by event by TLC. non-trivial = a rejection or eviction occurred; "
                   "distinct = distinct abstract traces",
        replay=replay)
