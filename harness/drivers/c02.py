"""C02 -- non-dominated sorting assigns every individual its true Pareto rank.

spec: SortOps.tla (RankOK, FastNDS), NDSort.tla (pairwise pass + peeling as a state machine), SortTrace.tla
code: artap.operators.Selector.fast_nondominated_sorting
"""
import math
import itertools
import json
import os

from .. import absx, core, tlc
from ..core import Part, Skip, observe

MC_CFG = """CONSTANTS M = %d
Vals = {%s}
Marks = {0, 1}
MaxN = %d
SPECIFICATION Spec
INVARIANT InvRank
INVARIANT InvAllRanked
INVARIANT InvFront1
INVARIANT InvFrontsND
INVARIANT InvPartial
CHECK_DEADLOCK FALSE
"""
VEC_CFG = "CONSTANTS M = %d\nVals = {0, 1, 2}\nMarks = {0, 1}\nINIT Init\nNEXT Next\nCHECK_DEADLOCK FALSE\n"


def export_vecs(ctx, m):
    out = os.path.join(ctx.scratch, "vecs%d.json" % m)
    tlc.run("DominanceGen", VEC_CFG % m, ctx.scratch, env={"OUT": out}, workers=1, name="VecGen-%d" % m)
    vecs = json.load(open(out))
    os.remove(out)
    return vecs


def build_population(rng, absvecs, share_vectors=False):
    """abstract solutions -> real Individuals with concretised costs_signed; returns (individuals, projected solutions)."""
    Individual = absx.individual_class(rng)
    mixed_classes = rng.random() < 0.3       # a population may mix the framework's design classes (archived leaders next to fresh offspring)
    m = len(absvecs[0]["c"])
    maps = [absx.monotone_map(rng, 3) for _ in range(m)]
    mstyle = rng.randrange(3)
    inds = []
    for k, v in enumerate(absvecs):
        if mixed_classes:
            Individual = absx.individual_class(rng)
        ind = Individual([float(k if not share_vectors else rng.randrange(2)), 1.0])
        ind.costs_signed = [maps[i][v["c"][i]] for i in range(m)] + [absx.concrete_marker(rng, v["m"], mstyle)]
        ind.costs = list(ind.costs_signed[:-1])
        inds.append(ind)
    return inds


def project_population(inds):
    try:
        ranks = absx.dense_ranks([i.costs_signed[:-1] for i in inds])
    except ValueError:
        raise Skip()
    return [{"c": r, "m": absx.abstract_marker(i.costs_signed[-1])} for r, i in zip(ranks, inds)]


def make_selector(rng):
    """every public Selector flavour sorts through the same inherited method -- and must give the same (Pareto) ranks"""
    from artap.operators import CopySelector, DummySelector, EpsilonDominance, ParetoDominance, TournamentSelector
    k = rng.randrange(5) if rng is not None else 0
    if k == 0:
        return DummySelector([])
    if k == 1:
        return CopySelector([])
    if k == 2:
        return TournamentSelector([])
    if k == 3:
        return TournamentSelector([], dominance=ParetoDominance)
    return TournamentSelector([], dominance=EpsilonDominance, epsilons=[rng.choice([1e-3, 0.01, 0.1, 1.0])])


def sort_event(inds, rng=None, sel=None):
    sel = sel or make_selector(rng)
    sort_event.last_selector = sel
    pop = project_population(inds)
    st, res = observe(sel.fast_nondominated_sorting, inds)
    ev = {"ev": "sort", "pop": pop, "ranks": [], "exc": ""}
    if st == "exc":
        ev["exc"] = res
    else:
        ev["ranks"] = [(i.features.get("front_number") or 0) for i in inds]
    return ev


class Sort(Part):
    name = "sort"
    trace_module = "SortTrace"
    trace_shards = 8

    def mc(self, ctx):
        runs = [tlc.run("NDSort", MC_CFG % (2, "0, 1, 2", 3), ctx.scratch, workers=8, coverage=True, name="NDSort-mc3")]
        if not ctx.quick:
            runs.append(tlc.run("NDSort", MC_CFG % (2, "0, 1, 2", 4), ctx.scratch, workers=16, name="NDSort-mc4", timeout=3000))
            runs.append(tlc.run("NDSort", MC_CFG % (3, "0, 1", 4), ctx.scratch, workers=16, name="NDSort-mc4-3obj", timeout=3000))
        return runs

    def cases(self, ctx):
        rng = ctx.rng
        cases = []
        vecs2 = export_vecs(ctx, 2)
        vecs3 = export_vecs(ctx, 3)
        # every population (sequence) of size <= 3 over the model's 18 vectors: all input orders by construction
        for n in (1, 2, 3):
            for combo in itertools.product(range(len(vecs2)), repeat=n):
                cases.append({"kind": "model", "pop": [vecs2[i] for i in combo], "cseed": rng.randrange(1 << 30)})
        if ctx.quick:
            cases = cases[:18 + 324] + rng.sample(cases[18 + 324:], 2500)
        for n, cnt in ((4, 1500), (5, 1000), (6, 500)) if ctx.quick else ((4, 30000), (5, 20000), (6, 10000)):
            for _ in range(cnt):
                src = vecs2 if rng.random() < 0.6 else vecs3
                cases.append({"kind": "model", "pop": [rng.choice(src) for _ in range(n)], "cseed": rng.randrange(1 << 30)})
        # beyond the model: random populations up to 40 members, up to 4 objectives
        for _ in range(300 if ctx.quick else 4000):
            cases.append({"kind": "random", "n": rng.randint(1, 40), "m": rng.randint(1, 4), "cseed": rng.randrange(1 << 30)})
        # sorts observed inside real NSGA-II runs
        for _ in range(6 if ctx.quick else 40):
            cases.append({"kind": "nsga2", "n": rng.randint(4, 12), "g": rng.randint(2, 5), "cseed": rng.randrange(1 << 30)})
        return cases

    def run_case(self, ctx, case):
        import random as pyrandom
        rng = pyrandom.Random(case["cseed"])
        if case["kind"] == "model":
            inds = build_population(rng, case["pop"], share_vectors=rng.random() < 0.2)
            trace = [sort_event(inds, rng)]
            if rng.random() < 0.35:
                # the SAME individuals are sorted again after their costs changed and in another order, as swarm algorithms do with
                # copied feature dictionaries: counters, dominated lists and front numbers of the first sort must not leak
                import copy
                again = build_population(rng, [rng.choice(case["pop"]) for _ in inds])
                for old, new in zip(inds, again):
                    old.costs_signed, old.costs = new.costs_signed, new.costs
                rng.shuffle(inds)
                for i in inds:
                    i.features = copy.deepcopy(i.features)
                # ... half of the time with the very selector object of the first sort (one selector lives as long as its algorithm)
                trace.append(sort_event(inds, rng, sel=sort_event.last_selector if rng.random() < 0.5 else None))
            return trace
        if case["kind"] == "random":
            from artap.individual import Individual
            m = case["m"]
            close = rng.random() < 0.2       # distinct values far closer than any plausible tolerance
            pools = [absx.monotone_map(rng, rng.randint(2, 5), style="close" if close else None) for _ in range(m)]
            if rng.random() < 0.3:
                # infinite costs (penalised or failed designs): several members may share +inf (or -inf) in the same objective
                for pl in pools:
                    if rng.random() < 0.6:
                        pl.append(math.inf)
                    if rng.random() < 0.15:
                        pl.insert(0, -math.inf)
            inds = []
            mstyle_r = rng.randrange(3)
            for k in range(case["n"]):
                ind = Individual([float(k)])
                ind.costs_signed = [rng.choice(p) for p in pools] + [absx.concrete_marker(rng, rng.choice([0, 0, 0, 0, 0, 1, -1, 1, -1, 2, -2]), mstyle_r)]
                inds.append(ind)
            return [sort_event(inds, rng)]
        return self.nsga2(rng, case)

    @staticmethod
    def nsga2(rng, case):
        """Observe every sort call of a real NSGA-II run (wrapper around the public method)."""
        import random as pyrandom
        from artap.algorithm_NSGAII import NSGAII
        from artap.operators import Selector
        pyrandom.seed(case["cseed"])

        def f(ind):
            x = ind.vector
            return [round(x[0], 2), round((1 + x[1]) / (0.1 + x[0]), 1)]
        problem = absx.make_problem(2, bounds=[[0.0, 1.0], [0.0, 2.0]],
                                    costs=[{'name': 'f1', 'criteria': 'minimize'}, {'name': 'f2', 'criteria': 'minimize'}],
                                    evaluate=f)
        alg = NSGAII(problem)
        alg.options['max_population_number'] = case["g"]
        alg.options['max_population_size'] = case["n"]
        alg.options['verbose_level'] = 0
        events = []
        orig = Selector.fast_nondominated_sorting

        def wrapped(self, individuals):
            orig(self, individuals)
            try:
                pop = project_population(individuals)
            except Skip:
                return
            events.append({"ev": "sort", "pop": pop, "exc": "",
                           "ranks": [(i.features.get("front_number") or 0) for i in individuals]})
        Selector.fast_nondominated_sorting = wrapped
        try:
            alg.run()
        finally:
            Selector.fast_nondominated_sorting = orig
        if not events:
            raise Skip()
        return events

    def nontrivial(self, case, trace):
        return any(len(set(e["ranks"])) > 1 for e in trace)

    def key(self, case, trace, fail):
        return "sort:%s:%s" % (case["kind"], fail["clause"])

    def sample(self, case, trace):
        return {"case": {k: v for k, v in case.items()}, "trace": trace[:1]}


def run(ctx, replay=None):
    return core.run_property(
        ctx, [Sort()], level="model_checking",
        assumptions=["cost values are identical floats or differ by relative gaps >= 1e-5 (rank abstraction exact); near-ties skipped",
                     "the sort is observed through features['front_number'] after the public call"],
        level_rule="all populations (as sequences, i.e. in every input order) of size <=3 over the model's 18 vectors (quick: size 3 sampled), "
                   "sampled sizes 4-6 over 2 and 3 objectives, random populations up to 40 members / 4 objectives, and every sort call "
                   "inside real NSGA-II runs; non-trivial = at least two fronts; distinct = distinct abstract traces",
        replay=replay)
