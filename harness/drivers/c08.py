"""C08 -- variation, sampling and search never leave the declared parameter box.

spec: Variation.tla (class abstraction; inductive skeleton of the population algorithms), VariationTrace.tla
code: SimulatedBinaryCrossover, PmMutator, UniformMutator, NonUniformMutation, VectorAndNumbers.gen_vector, the generators,
      NSGA-II / eps-MOEA / OMOPSO / SMPSO / PSOGA runs (every vector handed to the user's objective)
"""
import itertools
import math

from .. import absx, core, tlc
from ..core import Part, Skip, observe
from .c12 import NAMES

MC_CFG = "CONSTANTS MaxSteps = %d\nDeviation = \"%s\"\nSPECIFICATION Spec\nINVARIANT EvaluatedInBox\nINVARIANT PopulationInBox\nCHECK_DEADLOCK FALSE\n"
BOXES = {
    "unit": [0.0, 1.0], "negative": [-3.0, -1.0], "tiny": [1e-9, 2e-9], "tinyneg": [-2e-300, -1e-300], "denorm": [1e-300, 2e-300],
    "huge": [-1e9, 1e12], "huge2": [-1e12, 1e9], "offset": [1e6, 1e6 + 1.0], "mixed": [-0.25, 7.5],
    # bounds that are not multiples of any decimal grid
    "third": [1.0 / 3.0, math.pi], "negpi": [-math.pi, -1.0 / 7.0], "sevenths": [1e6 / 7.0, 2e6 / 7.0],
}
DRAWS = [0.0, 1e-300, 1e-16, 0.25, 0.5 - 1e-16, 0.5, 0.5 + 2e-16, 0.75, 1.0 - 1.2e-16]


def ulp(x):
    return math.ulp(abs(x)) if x != 0 else 5e-324


def classify(x, lb, ub, tol):
    """class of one coordinate; tol = admissible absolute excursion (0 for clipped operators)"""
    if isinstance(x, complex):
        return "Complex"
    try:
        v = float(x)
    except (TypeError, ValueError):
        return "NonReal"
    if math.isnan(v):
        return "NaN"
    if v < lb - tol:
        return "Below"
    if v > ub + tol:
        return "Above"
    if abs(v - lb) <= tol or v == lb:
        return "AtLb"
    if abs(v - ub) <= tol or v == ub:
        return "AtUb"
    return "In"


def gen_tol(p):
    """generators: in bounds up to the declared rounding precision (default 1e-12; half of a declared precision) plus 4 ulp of the bound"""
    lb, ub = p['bounds']
    prec = p.get('precision')
    base = 1e-12 if not prec else prec / 2.0
    return base + 4 * max(ulp(lb), ulp(ub))


def parent_value(rng, cls, lb, ub):
    w = ub - lb
    if cls == "AtLb":
        return lb
    if cls == "AtUb":
        return ub
    if cls == "NearLb":
        return min(ub, lb + rng.choice([ulp(lb), 1e-12 * w, 1e-6 * w]))
    if cls == "NearUb":
        return max(lb, ub - rng.choice([ulp(ub), 1e-12 * w, 1e-6 * w]))
    return lb + w * rng.uniform(0.1, 0.9)


def scripted(values):
    """a deterministic replacement for random.random / random.uniform(0, 1) that walks through `values` cyclically"""
    it = itertools.cycle(values)
    return lambda *a: (a[0] + (a[1] - a[0]) * next(it)) if len(a) == 2 else next(it)


class Operators(Part):
    name = "operators"
    trace_module = "VariationTrace"
    trace_shards = 8

    def mc(self, ctx):
        runs = [tlc.run("Variation", MC_CFG % (8 if ctx.quick else 12, "none"), ctx.scratch, workers=4, coverage=True, name="Variation-mc")]
        r = tlc.run("Variation", MC_CFG % (6, "unclipped"), ctx.scratch, workers=2, name="Variation-dev")
        if not r.violated:
            raise tlc.MachineryError("the unclipped deviation no longer violates the box invariant")
        return runs

    def cases(self, ctx):
        rng = ctx.rng
        cases = []
        space = list(itertools.product(["sbx", "pm", "uniform", "nonuniform"], ["AtLb", "NearLb", "Mid", "NearUb", "AtUb"],
                                       ["coincident", "eps", "tiny", "far"], list(BOXES), [0.0, 0.5, 1.0], [0, 1, 15, 20, 1000],
                                       ["start", "mid", "end"]))
        n = 5000 if ctx.quick else 120000
        for op, ppos, rel, box, prob, eta, it in (rng.sample(space, n) if n < len(space) else space):
            cases.append({"op": op, "ppos": ppos, "rel": rel, "box": box, "prob": prob, "eta": eta, "iter": it,
                          "cseed": rng.randrange(1 << 30)})
        return cases

    def run_case(self, ctx, case):
        import random as pyrandom
        from artap import operators as ops
        rng = pyrandom.Random(case["cseed"])
        dim = rng.randint(1, 4)
        boxes = [BOXES[case["box"]]] + [BOXES[rng.choice(list(BOXES))] for _ in range(dim - 1)]
        params = [{'name': NAMES[i], 'bounds': list(b)} for i, b in enumerate(boxes)]
        p1 = [parent_value(rng, case["ppos"] if i == 0 else rng.choice(["AtLb", "NearLb", "Mid", "NearUb", "AtUb"]), b[0], b[1])
              for i, b in enumerate(boxes)]
        p2 = []
        for x, b in zip(p1, boxes):
            w = b[1] - b[0]
            d = {"coincident": 0.0, "eps": ulp(x) * rng.choice([1, -1]), "tiny": 1e-12 * w * rng.choice([1, -1]),
                 "far": w * rng.uniform(-0.8, 0.8)}[case["rel"]]
            p2.append(min(b[1], max(b[0], x + d)))
        draws = [rng.choice(DRAWS) for _ in range(40)]
        maxit = 10
        it = {"start": 0, "mid": 5, "end": maxit}[case["iter"]]
        op = case["op"]
        saved = (pyrandom.random, pyrandom.uniform)
        pyrandom.random = scripted(draws)
        pyrandom.uniform = scripted(draws)
        try:
            if op == "sbx":
                st, res = observe(lambda: ops.SimulatedBinaryCrossover(params, case["prob"], case["eta"]).cross(list(p1), list(p2)))
                children = list(res) if st == "ok" else []
            elif op == "pm":
                st, res = observe(lambda: ops.PmMutator(params, case["prob"], case["eta"]).mutate(list(p1)))
                children = [res] if st == "ok" else []
            elif op == "uniform":
                pert = rng.choice([0.5, 1e-3, 10.0, 1e9])
                st, res = observe(lambda: ops.UniformMutator(params, case["prob"], pert).mutate(list(p1)))
                children = [res] if st == "ok" else []
            else:
                pert = rng.choice([0.5, 1.0, 5.0])
                st, res = observe(lambda: ops.NonUniformMutation(params, case["prob"], maxit, pert).mutate(list(p1), it))
                children = [res] if st == "ok" else []
        finally:
            pyrandom.random, pyrandom.uniform = saved
        ev = {"ev": "vary", "op": op, "nin": dim, "parents": [classify(x, b[0], b[1], 0.0) for x, b in zip(p1 + p2, boxes + boxes)],
              "children": [], "exc": "" if st == "ok" else res}
        for ch in children:
            try:
                ev["children"].append([classify(x, b[0], b[1], 0.0) for x, b in itertools.zip_longest(list(ch), boxes, fillvalue=(0.0, 0.0))]
                                      if len(ch) == dim else ["NonReal"] * len(ch))
            except TypeError:
                ev["children"].append(["NonReal"])
        return [ev]

    def nontrivial(self, case, trace):
        return any(c != trace[0]["parents"][:len(c)] for c in trace[0]["children"])

    def key(self, case, trace, fail):
        return "vary:%s:%s:%s" % (case["op"], case["box"], fail["clause"])


class Generators(Part):
    name = "generators"
    trace_module = "VariationTrace"

    def cases(self, ctx):
        rng = ctx.rng
        cases = []
        for gen in ("random", "lhs", "halton", "uniform", "fullfact", "pb", "bb", "gen_vector"):
            for _ in range(25 if ctx.quick else 300):
                cases.append({"gen": gen, "dim": rng.randint(3 if gen == "bb" else 1, 6), "n": rng.randint(1, 30),
                              "precision": rng.choice([None, None, 1e-3, 0.1, 1e-6]), "cseed": rng.randrange(1 << 30)})
        return cases

    def run_case(self, ctx, case):
        import random as pyrandom
        import numpy as np
        from artap import operators as ops
        from artap.utils import VectorAndNumbers
        rng = pyrandom.Random(case["cseed"])
        pyrandom.seed(case["cseed"])
        np.random.seed(case["cseed"] % (1 << 31))
        dim = case["dim"]
        params = []
        for i in range(dim):
            # boxes narrower than the default rounding precision (1e-12) collapse under gen_number's rounding: not used for generators
            p = {'name': NAMES[i], 'bounds': list(BOXES[rng.choice([b for b in BOXES if b not in ("denorm", "tinyneg")])])}
            if case["precision"] and case["gen"] in ("random", "gen_vector") and (p['bounds'][1] - p['bounds'][0]) > 10 * case["precision"] \
                    and max(abs(p['bounds'][0]), abs(p['bounds'][1])) < 1e6:
                p['precision'] = case["precision"]
            params.append(p)
        g = case["gen"]
        if g == "fullfact" and case["cseed"] % 3 == 0:
            # the full factorial uses nothing but the bounds and their mid-point: it also serves boxes wider than the largest double
            # (finite bounds of opposite sign near the ends of the float range); the other generators document |bounds| <= 1e12
            params[rng.randrange(dim)]['bounds'] = list(rng.choice([[-1e308, 1e308], [-1.5e308, 1.7e308], [-1.7e308, 1e300]]))
        snap = [dict(p, bounds=list(p['bounds'])) for p in params]
        if g == "gen_vector":
            st, vs = observe(lambda: [VectorAndNumbers.gen_vector(params) for _ in range(case["n"] * 20)])
        else:
            gen = {"random": ops.RandomGenerator, "lhs": ops.LHSGenerator, "halton": ops.HaltonGenerator, "uniform": ops.UniformGenerator,
                   "fullfact": ops.FullFactorGenerator, "pb": ops.PlackettBurmanGenerator, "bb": ops.BoxBehnkenGenerator}[g](params)
            if g in ("random", "lhs", "halton"):
                gen.init(case["n"])
            elif g == "uniform":
                gen.init(2 + case["n"] % 3)
            elif g == "fullfact":
                gen.init(case["n"] % 2 == 0)
            st, vs = observe(gen.generate)
        ev = {"ev": "generated", "gen": g, "ndim": dim, "rows": [], "exc": "" if st == "ok" else vs}
        if st == "ok":
            for v in vs:
                ev["rows"].append([classify(x, p['bounds'][0], p['bounds'][1], gen_tol(p)) for x, p in zip(list(v), snap)]
                                  if len(v) == dim else ["NonReal"] * len(v))
        return [ev]

    def key(self, case, trace, fail):
        return "generate:%s:%s" % (case["gen"], fail["clause"])

    def sample(self, case, trace):
        e = dict(trace[0])
        e["rows"] = e["rows"][:3]
        return {"case": case, "trace": [e]}


class Runs(Part):
    name = "runs"
    trace_module = "VariationTrace"

    def cases(self, ctx):
        rng = ctx.rng
        cases = []
        for alg in ("nsga2", "nsga2-corners", "nsga2-corners", "epsmoea", "omopso", "smpso", "psoga"):
            for _ in range(8 if ctx.quick else 80):
                cases.append({"alg": alg.split("-")[0], "n": rng.randint(2, 12), "g": rng.randint(1, 6), "dim": rng.randint(1, 4),
                              "pfail": rng.choice([0.0, 0.0, 0.2]), "precision": rng.choice([None, None, 1e-3]), "corner_start": alg.endswith("corners"), "edit_bounds": rng.random() < 0.3,
                              "cseed": rng.randrange(1 << 30)})
        return cases

    def run_case(self, ctx, case):
        import random as pyrandom
        import numpy as np
        pyrandom.seed(case["cseed"])
        np.random.seed(case["cseed"] % (1 << 31))
        rng = pyrandom.Random(case["cseed"] + 1)
        dim = case["dim"]
        # the first coordinate has a range far above 1e-10: artap identifies designs closer than 1e-10 (absolute), so a box that is
        # narrower than that in every coordinate admits only one design and offspring generation cannot terminate (not a C08 matter)
        boxes = [list(BOXES[rng.choice(["unit", "negative", "huge", "offset", "mixed", "third", "negpi", "sevenths"])])] + \
                [list(BOXES[rng.choice(["unit", "negative", "tiny", "huge", "offset", "mixed", "third", "negpi", "sevenths"])]) for _ in range(dim - 1)]
        trace = []
        params_snap = []

        def f(ind):
            x = list(ind.vector)
            trace.append({"ev": "evaluated", "alg": case["alg"], "ndim": dim,
                          "classes": [classify(v, p['bounds'][0], p['bounds'][1], gen_tol(p)) for v, p in zip(x, params_snap)]
                          if len(x) == dim else ["NonReal"] * len(x)})
            if case["pfail"] and rng.random() < case["pfail"] and fails[0] < 3:
                fails[0] += 1
                raise TimeoutError("scripted")
            fails[0] = 0
            s = sum(float(v.real if isinstance(v, complex) else v) for v in x)
            return [abs(math.sin(s)), abs(math.cos(s * 1.3))]
        fails = [0]
        problem = absx.make_problem(dim, bounds=boxes, evaluate=f,
                                    costs=[{'name': 'f_1', 'criteria': 'minimize'}, {'name': 'f_2', 'criteria': 'minimize'}])
        if case["precision"]:
            for p in problem.parameters:
                if (p['bounds'][1] - p['bounds'][0]) > 100 * case["precision"] and max(abs(p['bounds'][0]), abs(p['bounds'][1])) < 1e6:
                    p['precision'] = case["precision"]
        params_snap.extend(dict(p, bounds=list(p['bounds'])) for p in problem.parameters)
        if case["alg"] == "nsga2":
            from artap.algorithm_NSGAII import NSGAII as A
        elif case["alg"] == "epsmoea":
            from artap.algorithm_genetic import EpsMOEA as A
        elif case["alg"] == "omopso":
            from artap.algorithm_swarm import OMOPSO as A
        elif case["alg"] == "smpso":
            from artap.algorithm_swarm import SMPSO as A
        else:
            from artap.algorithm_swarm import PSOGA as A
        alg = A(problem)
        alg.options['max_population_number'] = case["g"]
        alg.options['max_population_size'] = case["n"]
        alg.options['verbose_level'] = 0
        if case.get("edit_bounds"):
            # the box is narrowed IN PLACE after the algorithm object exists (a second study on the same objects): what is evaluated from now
            # on lies in the box as it is declared now
            for p, snap in zip(problem.parameters, params_snap):
                lb, ub = p['bounds']
                w = ub - lb
                p['bounds'][0], p['bounds'][1] = lb + 0.25 * w, ub - 0.25 * w
                snap['bounds'] = list(p['bounds'])
            boxes = [list(p['bounds']) for p in problem.parameters]
        if case["alg"] == "nsga2" and case.get("corner_start"):
            # a user-supplied initial design on the vertices and faces of the box (screening designs start there)
            from artap.operators import CustomGenerator
            gen = CustomGenerator(problem.parameters)
            start, tries = [], 0
            while len(start) < case["n"] and tries < 1000:
                tries += 1
                v = [rng.choice([b[0], b[1], b[0], b[1], (b[0] + b[1]) / 2.0]) for b in boxes]
                if v not in start or tries > 200:
                    start.append(v)
            gen.init(start)
            alg.generator = gen
        st, res = observe(alg.run)
        # a run that stops with an exception is outside this property (C08 is about the designs that ARE evaluated; run completion and
        # budgets are C09's subject).  Observed on the pinned tree: with a declared coarse `precision` the rounded initial designs may
        # lie up to half a precision outside the box, and polynomial mutation of such a parent can produce a complex number, which
        # Operator.clip rejects with TypeError.  The designs evaluated up to that point are still judged.
        case["run_error"] = res if st == "exc" else ""
        if not trace:
            raise Skip()
        return trace

    def key(self, case, trace, fail):
        return "run:%s:%s" % (case["alg"], fail["clause"])

    def sample(self, case, trace):
        return {"case": case, "trace": trace[:3]}


def run(ctx, replay=None):
    return core.run_property(
        ctx, [Operators(), Generators(), Runs()], level="exploration",
        assumptions=["variation operators: children must lie in [lb, ub] exactly (no tolerance); generators and evaluated designs: up to 1e-12 (half of a "
                     "declared precision) plus 4 ulp of the larger bound; |bounds| <= 1e12 (gen_number's rounding overflows beyond ~1e296)",
                     "random.random / random.uniform are scripted with boundary draws (0, 1e-300, 1e-16, 1/2 +- eps, 1 - 1.2e-16) while an operator runs",
                     "TLA+ contributes the class abstraction and the inductive loop model (with the unclipped operator as a failing witness); the box "
                     "arithmetic itself is floating point and is only observed, never modelled"],
        level_rule="abstract operator cases = operator x parent position class x parent relation (coincident / 1 ulp / 1e-12 / far) x 9 box classes "
                   "(negative, tiny, denormal-scale, huge, offset) x probability x distribution index x iteration, sampled (quick 5000), each with scripted "
                   "boundary draws and 1-4 coordinates; 8 generators on mixed boxes with and without declared precision; every objective call of NSGA-II, "
                   "eps-MOEA, OMOPSO, SMPSO, PSOGA runs (N 2..12, G 1..6, failures) is class-checked; TLC judges every event. non-trivial = a child "
                   "differs from its parent; distinct = distinct abstract traces",
        replay=replay)
