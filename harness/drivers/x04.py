"""X04 (extension, not a listed property) -- one SQLite file over several sessions: open modes, resume, id allocation.

spec: StoreSessions.tla (Open(mode) / New / Temp / Sync / Close; properties RewriteStartsEmpty, ResumeLoadsEverything, ReadModeNeverWrites,
      NoLoss -- refuted for the pinned tree's id policy "count", proved for the repair policy "max"), StoreSessionsGen.tla, StoreSessionsTrace.tla
code: artap.datastore.SqliteDataStore(mode = write / rewrite / read), Individual's process-wide id counter
"""
import json
import os
import sqlite3

from .. import core, tlc
from ..core import Part, observe

MC_CFG = """CONSTANTS MaxSessions = %d
MaxOps = %d
IdPolicy = "%s"
Modes = {"write", "rewrite", "read"}
SPECIFICATION Spec
INVARIANT TypeOK
INVARIANT LiveIdsDistinct
PROPERTY RewriteStartsEmpty
PROPERTY ResumeLoadsEverything
PROPERTY ReadModeNeverWrites
PROPERTY NoLoss
CHECK_DEADLOCK FALSE
"""
GEN_CFG = """CONSTANTS MaxSessions = %d
MaxOps = %d
IdPolicy = "count"
Modes = {"write", "rewrite", "read"}
INIT GInit
NEXT GNext
INVARIANT Emit
CHECK_DEADLOCK FALSE
"""
TRACE_CFG = "CONSTANTS MaxSessions = 1000\nMaxOps = 1000000\nIdPolicy = \"count\"\nModes = {\"write\", \"rewrite\", \"read\"}\n" + core.TRACE_CFG


class Sessions(Part):
    name = "sessions"
    trace_module = "StoreSessionsTrace"
    trace_cfg = TRACE_CFG
    coverage_strict = False

    def mc(self, ctx):
        runs = [tlc.run("StoreSessions", MC_CFG % (2, 8 if ctx.quick else 10, "max"), ctx.scratch, workers=8, coverage=True,
                        name="StoreSessions-max", timeout=3000)]
        # the pinned tree's policy must violate NoLoss (named deviation IdCollisionAfterResume): the model keeps its teeth
        r = tlc.run("StoreSessions", MC_CFG % (2, 8, "count"), ctx.scratch, workers=4, name="StoreSessions-count")
        if r.violated != "NoLoss":
            raise tlc.MachineryError("id policy 'count' no longer violates NoLoss (got %s)" % r.violated)
        return runs

    def cases(self, ctx):
        cases, seen = [], set()
        plan = ((2, 8, 300), (3, 12, 300)) if ctx.quick else ((2, 9, 3000), (3, 13, 3000), (4, 18, 2000))
        for ms, ops, num in plan:
            r = tlc.run("StoreSessionsGen", GEN_CFG % (ms, ops), ctx.scratch, workers=1, simulate="num=%d" % num, depth=ops + 1,
                        seed=ctx.seed + ms, name="StoreSessionsGen-%d-%d" % (ms, ops))
            behs = r.printed("BEH")
            if not behs:
                raise tlc.MachineryError("StoreSessionsGen emitted no behaviours")
            for b in behs:
                if b[1] not in seen:
                    seen.add(b[1])
                    cases.append({"kind": "beh", "ops": json.loads(b[1])})
        return cases

    def run_case(self, ctx, case):
        import logging
        logging.disable(logging.CRITICAL)
        from artap.datastore import SqliteDataStore
        from artap.individual import Individual
        from artap.problem import Problem
        db = os.path.join(ctx.scratch, "x04-%d-%d.sqlite" % (os.getpid(), ctx.rng.randrange(1 << 30)))
        saved_counter = Individual.counter
        trace = []
        st = {"sess": 0, "serial": 0, "problem": None, "store": None}

        def rows():
            if not os.path.exists(db):
                return []
            con = sqlite3.connect(db)
            try:
                out = []
                for rid, blob in con.execute("SELECT id, individual FROM individuals"):
                    c = json.loads(blob).get("custom") or {}
                    out.append([int(rid), int(c.get("s", 0)), int(c.get("n", 0)), int(c.get("v", 0))])
                return out
            finally:
                con.close()

        def do(op):
            name = op["op"]
            if name == "open":
                Individual.counter = 0                      # a new process starts the id counter at 0
                st["sess"] += 1
                st["serial"] = 0
                k = st["sess"]

                class P(Problem):
                    def set(self):
                        self.name = "s%d" % k
                        self.parameters = [{'name': 'x%d' % k, 'bounds': [0.0, float(k)]}]
                        self.costs = [{'name': 'f%d' % k, 'criteria': 'minimize'}]

                    def evaluate(self, individual):
                        return [0.0]
                p = P()
                st["problem"] = p
                st["store"] = SqliteDataStore(p, database_name=db, mode=op["m"])
                p.data_store = st["store"]
                return None
            p = st["problem"]
            if name == "new":
                ind = Individual([0.5])
                st["serial"] += 1
                ind.custom = {"s": st["sess"], "n": st["serial"], "v": 0}
                p.individuals.append(ind)
                return int(ind.id)
            if name == "temp":
                Individual([0.25])
                return None
            if name == "sync":
                cands = [x for x in p.individuals if x.id == op["i"]]
                st["store"].sync_individual(cands[-1])      # the most recently recorded individual with that id
                return None
            if name == "mutate":
                cands = [x for x in p.individuals if x.id == op["i"]]
                cands[-1].custom["v"] += 1
                return None
            if name == "close":
                st["store"].destroy()
                st["store"] = None
                return None

        try:
            for op in case["ops"]:
                s, res = observe(do, op)
                ev = {"ev": "op", "op": op["op"], "m": op["m"], "i": op["i"], "exc": "" if s == "ok" else res, "id": -1,
                      "counter": Individual.counter, "rows": rows(), "loaded": [], "probdef": 0}
                if s == "ok" and op["op"] == "new":
                    ev["id"] = res
                if s == "ok" and op["op"] == "open":
                    p = st["problem"]
                    ev["loaded"] = [[int(x.id), int((x.custom or {}).get("s", 0)), int((x.custom or {}).get("n", 0)), int((x.custom or {}).get("v", 0))]
                                    for x in p.individuals]
                    nm = str(p.name)
                    same = p.parameters and p.costs and p.parameters[0]['name'] == "x" + nm[1:] and p.costs[0]['name'] == "f" + nm[1:]
                    ev["probdef"] = int(nm[1:]) if nm[1:].isdigit() and same else -1
                trace.append(ev)
        finally:
            Individual.counter = max(saved_counter, Individual.counter)
            for ext in ("", "-journal", "-wal", "-shm"):
                try:
                    os.remove(db + ext)
                except OSError:
                    pass
        return trace

    def nontrivial(self, case, trace):
        return sum(1 for e in trace if e["op"] == "open") >= 2 and any(e["rows"] for e in trace)

    def key(self, case, trace, fail):
        e = trace[fail["event"] - 1] if fail["event"] > 0 else {}
        return "sessions:%s:%s" % (e.get("op", "?"), fail["clause"])

    def sample(self, case, trace):
        return {"case": case, "trace": trace[:4]}


def run(ctx, replay=None):
    return core.run_property(
        ctx, [Sessions()], level="model_checking",
        assumptions=["a new process is simulated by resetting Individual.counter to 0 before the store is attached (the counter is a class "
                     "attribute initialised at import)", "documents the behaviour of the pinned tree, including the named deviations "
                     "DefinitionsTakenFromFile and IdCollisionAfterResume (a resumed session overwrites rows of the earlier one when the "
                     "stored ids have gaps); not a listed property"],
        level_rule="TLC checks StoreSessions exhaustively for 2 sessions and 8 (10) operations under the repair policy and requires the pinned "
                   "tree's policy to violate NoLoss; TLC-simulated scripts with up to 3 (4) sessions are executed on real SqliteDataStore "
                   "objects sharing one file; counter, file rows, loaded individuals and definitions are compared with the model by TLC",
        replay=replay)
