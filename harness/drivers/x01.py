"""X01 (extension, not a listed property) -- ConfigDictionary: declare / set / get as a state machine.

spec: Config.tla, ConfigTrace.tla (replays Declare / Set and compares outcomes and stored values)
code: artap.utils.ConfigDictionary
"""
import json

from .. import core, tlc
from ..core import Part, observe

MC_CFG = """CONSTANTS Names = {"a", "b"}
Vals = {0, 1, 2}
ReadOnly = %s
MaxOps = %d
SPECIFICATION Spec
PROPERTY SetValuesValid
PROPERTY DeclaredStay
PROPERTY FailedSetChangesNothing
PROPERTY ReadOnlyFrozen
CHECK_DEADLOCK FALSE
"""
TRACE_CFG = "CONSTANTS Names = {\"a\", \"b\", \"c\"}\nVals = {0, 1, 2, 3}\nReadOnly = %s\nMaxOps = 1000000\n" + core.TRACE_CFG


class Options(Part):
    name = "options"
    trace_module = "ConfigTrace"

    def __init__(self, read_only):
        self.read_only = read_only
        self.name = "options-readonly" if read_only else "options"
        self.trace_cfg = TRACE_CFG % ("TRUE" if read_only else "FALSE")

    def mc(self, ctx):
        return [tlc.run("Config", MC_CFG % ("TRUE" if self.read_only else "FALSE", 3), ctx.scratch, workers=8, coverage=not self.read_only,
                        name="Config-mc-%s" % self.read_only, timeout=1200)]
    coverage_strict = False

    def cases(self, ctx):
        rng = ctx.rng
        cases = []
        for _ in range(300 if ctx.quick else 5000):
            ops = []
            for _ in range(rng.randint(1, 10)):
                if rng.random() < 0.4:
                    ops.append({"op": "declare", "n": rng.choice("abc"), "value": rng.randrange(4),
                                "vals": rng.choice([None, [0, 1], [1, 2], [3]]), "lo": rng.choice([None, 1, 2]), "up": rng.choice([None, 1, 2])})
                elif rng.random() < 0.7:
                    ops.append({"op": "set", "n": rng.choice("abc"), "v": rng.randrange(4)})
                else:
                    ops.append({"op": "get", "n": rng.choice("abc")})
            cases.append({"ops": ops})
        return cases

    def run_case(self, ctx, case):
        from artap.utils import ConfigDictionary
        cd = ConfigDictionary(read_only=self.read_only)
        trace = []

        def outcome(st, res):
            if st == "ok":
                return "ok"
            return "KeyError" if res.startswith("KeyError") else ("ValueError" if res.startswith("ValueError") else res)
        for o in case["ops"]:
            if o["op"] == "declare":
                st, res = observe(cd.declare, o["n"], o["value"], values=o["vals"], lower=o["lo"], upper=o["up"])
                trace.append({"ev": "declare", "n": o["n"], "value": o["value"], "vals": o["vals"] if o["vals"] is not None else [-1],
                              "lo": -1 if o["lo"] is None else o["lo"], "up": -1 if o["up"] is None else o["up"], "out": outcome(st, res)})
            elif o["op"] == "set":
                st, res = observe(cd.__setitem__, o["n"], o["v"])
                trace.append({"ev": "set", "n": o["n"], "v": o["v"], "out": outcome(st, res)})
            else:
                st, res = observe(cd.__getitem__, o["n"])
                trace.append({"ev": "get", "n": o["n"], "out": outcome(st, res), "value": res if st == "ok" else -1})
            trace.append({"ev": "snapshot", "values": [[n, cd[n]] for n in cd]})
        return trace

    def nontrivial(self, case, trace):
        return any(e["ev"] == "set" and e["out"] == "ok" for e in trace) or any(e.get("out") == "ValueError" for e in trace)

    def key(self, case, trace, fail):
        return "config:%s" % fail["clause"]


def run(ctx, replay=None):
    return core.run_property(
        ctx, [Options(False), Options(True)], level="model_checking",
        assumptions=["option values are small integers; `types` and `is_valid` are not exercised"],
        level_rule="TLC checks the option store for 2 names x 36 option shapes x 3 operations; random histories of 1-10 declare / set / get calls over 3 "
                   "names are executed on a real ConfigDictionary (writable and read-only) and replayed by ConfigTrace with the model's own actions",
        replay=replay)
