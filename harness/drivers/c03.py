"""C03 -- environmental selection is elitist: rank first, then crowding, no duplicates; crowding distance; tournament.

spec: SortOps.tla (CrowdingOK, TruncOK, Elitist, TournOK), Selection.tla (state machine), SortTrace.tla (validator)
code: artap.operators.crowding_distance / nondominated_truncate / TournamentSelector.select
"""
import itertools
import math
from fractions import Fraction

from .. import absx, core, tlc
from ..core import Part, Skip, observe
from .c02 import export_vecs

MC_CFG = """CONSTANTS M = %d
Vals = {%s}
Marks = {0, 1}
MaxN = %d
SPECIFICATION Spec
INVARIANT TruncElitist
INVARIANT TruncCount
INVARIANT RefAllowed
INVARIANT CDInRange
INVARIANT WinnerSound
CHECK_DEADLOCK FALSE
"""


def rat(x):
    """float crowding distance -> [num, den] small rational (inf -> [1, 0])."""
    if isinstance(x, (int, float)) and math.isinf(x):
        return [1, 0] if x > 0 else [-1, 0]
    fr = Fraction(float(x)).limit_denominator(20000)
    if abs(float(fr) - float(x)) > 1e-9:
        # not a small rational: keep a faithful approximation so that TLC rejects it if the exact value was expected
        fr = Fraction(float(x)).limit_denominator(10 ** 6)
    return [fr.numerator, fr.denominator]


def affine_costs(rng, absvecs, tied_ok=True):
    """integer-valued abstract costs -> floats through per-objective affine maps with positive scale (gap ratios are exact)."""
    m = len(absvecs[0]["c"])
    a = [rng.choice([0.0, -3.0, 10.0, 1e3, -0.125]) for _ in range(m)]
    s = [rng.choice([1.0, 0.5, 2.0, 0.125, 16.0, 1e3]) for _ in range(m)]
    return [[a[i] + s[i] * v["c"][i] for i in range(m)] for v in absvecs]


def make_inds(rng, absvecs, vectors=None):
    Individual = absx.individual_class(rng)
    costs = affine_costs(rng, absvecs)
    mstyle = rng.randrange(3)
    inds = []
    for k, (v, c) in enumerate(zip(absvecs, costs)):
        vec = vectors[k] if vectors else [float(k), 0.5]
        if rng.random() < 0.25:
            # a relocated design: the object was created (and hashed, e.g. as a member of an earlier set) somewhere else, then moved here
            ind = Individual([float(rng.randint(50, 60)), -0.5])
            hash(ind)
            ind.vector = list(vec)
        else:
            ind = Individual(list(vec))
        ind.costs_signed = list(c) + [absx.concrete_marker(rng, v["m"], mstyle)]
        ind.costs = list(c)
        inds.append(ind)
    return inds


class Crowd(Part):
    name = "crowding"
    trace_module = "SortTrace"
    trace_shards = 8

    def mc(self, ctx):
        runs = [tlc.run("Selection", MC_CFG % (2, "0, 1, 2", 3), ctx.scratch, workers=8, coverage=True, name="Selection-mc3",
                        timeout=1800)]
        if not ctx.quick:
            runs.append(tlc.run("Selection", MC_CFG % (2, "0, 1, 2, 3", 3), ctx.scratch, workers=16, name="Selection-mc3-4vals",
                                timeout=3000))
            runs.append(tlc.run("Selection", MC_CFG % (3, "0, 1", 4), ctx.scratch, workers=16, name="Selection-mc4-3obj",
                                timeout=3000))
        # TLAPS side-car (not the deciding mechanism): rank-first survivor selection is elitist for populations of any size
        tlc.sidecar(ctx, "tlapm proofs/SelectionLaws.tla (rank first => elitist, generational elitism, a best design survives; arbitrary "
                    "population size)", tlc.tlapm, "proofs/SelectionLaws.tla", ctx.scratch)
        return runs

    def cases(self, ctx):
        rng = ctx.rng
        cases = []
        # fronts: mutually non-dominated by construction are not required -- crowding_distance is defined on any list
        for _ in range(2500 if ctx.quick else 40000):
            n = rng.choice([1, 2, 3, 3, 4, 4, 5, 6, 8, 12])
            m = rng.choice([1, 2, 2, 3])
            ties = rng.random() < 0.4
            # every fourth front holds the same design more than once with costs of its own each time (a noisy or stochastic objective):
            # the crowding distance is a function of the costs in the front, whatever the design vectors are
            cases.append({"kind": "front", "n": n, "m": m, "ties": ties, "shared": len(cases) % 4 == 3, "cseed": rng.randrange(1 << 30)})
        return cases

    def run_case(self, ctx, case):
        import random as pyrandom
        from artap.operators import crowding_distance
        rng = pyrandom.Random(case["cseed"])
        n, m = case["n"], case["m"]
        if case["ties"]:
            span = rng.choice([1, 2, 3, n])          # span 1: zero-range objectives
            vals = [[rng.randrange(span) for _ in range(m)] for _ in range(n)]
        else:
            cols = [rng.sample(range(0, 3 * n + 2), n) for _ in range(m)]
            vals = [[cols[d][k] for d in range(m)] for k in range(n)]
        absvecs = [{"c": v, "m": 0} for v in vals]
        vectors = None
        if case.get("shared") and n >= 2:
            groups = rng.choice([1, 2, max(1, n // 2)])
            vectors = [[float(rng.randrange(groups)), 0.5] for _ in range(n)]
        inds = make_inds(rng, absvecs, vectors)
        front = list(inds)
        rng.shuffle(front)
        st, res = observe(crowding_distance, front)
        ev = {"ev": "crowd", "front": [{"c": v["c"], "m": 0} for v in absvecs], "cd": [], "exc": ""}
        if st == "exc":
            ev["exc"] = res
        else:
            if sorted(map(id, front)) != sorted(map(id, inds)):
                ev["exc"] = "front membership changed"
            ev["cd"] = [rat(i.features["crowding_distance"]) for i in inds]
        return [ev]

    def nontrivial(self, case, trace):
        return len(trace[0]["front"]) >= 3

    def key(self, case, trace, fail):
        return "crowding:%s:%s" % ("ties" if case["ties"] else "noties", fail["clause"])


class Trunc(Part):
    name = "truncate"
    trace_module = "SortTrace"
    trace_shards = 8

    def cases(self, ctx):
        rng = ctx.rng
        cases = []
        vecs2 = export_vecs(ctx, 2)
        allpops = [list(c) for n in (1, 2, 3) for c in itertools.product(range(len(vecs2)), repeat=n)]
        if ctx.quick:
            allpops = rng.sample(allpops, 1200)
        for combo in allpops:
            pop = [vecs2[i] for i in combo]
            for size in range(1, len(pop) + 2):
                cases.append({"kind": "model", "pop": pop, "size": size, "dups": False, "cseed": rng.randrange(1 << 30)})
        for _ in range(1500 if ctx.quick else 30000):
            n = rng.randint(2, 30)
            cases.append({"kind": "random", "n": n, "m": rng.randint(1, 3), "size": rng.randint(1, n + 1),
                          "dups": rng.random() < 0.4, "cseed": rng.randrange(1 << 30)})
        return cases

    def run_case(self, ctx, case):
        import random as pyrandom
        from artap.operators import DummySelector, nondominated_truncate
        rng = pyrandom.Random(case["cseed"])
        if case["kind"] == "model":
            absvecs = case["pop"]
        else:
            pool = [{"c": [rng.randrange(0, 6) for _ in range(case["m"])], "m": rng.choice([0, 0, 0, 0, 0, 0, 1, -1, 1, 2, -2])}
                    for _ in range(case["n"])]
            absvecs = pool
        n = len(absvecs)
        vectors = None
        keys = list(range(1, n + 1))
        if case["dups"]:
            # duplicated designs: copies carry the same vector and (deterministic objective) the same costs
            absvecs = list(absvecs)
            for k in range(1, n):
                if rng.random() < 0.35:
                    j = rng.randrange(k)
                    absvecs[k] = absvecs[j]
                    keys[k] = keys[j]
        # design vectors: distinct designs are far apart; the -1.0 / -2.0 first coordinates collide in hash()
        # (designs 2j and 2j+1 differ ONLY in a first coordinate of -1.0 vs -2.0: their tuples collide in hash())
        base = {k: [[-1.0, -2.0][k % 2], float(k // 2)] if k % 4 < 2 else [[3.0, 4.5][k % 2], float(k)] for k in set(keys)}
        vectors = [base[k] for k in keys]
        inds = make_inds(rng, absvecs, vectors)
        st0, res0 = observe(DummySelector([]).fast_nondominated_sorting, inds)
        unranked = [i + 1 for i in range(n) if not inds[i].features.get("front_number") or inds[i].features.get("crowding_distance") is None]
        if st0 == "exc" or unranked:
            # the ranking step itself failed or left members without front / crowding distance: an observation, not a harness error
            return [{"ev": "trunc", "pop": [], "size": case["size"], "kept": [], "ranked": False,
                     "exc": res0 if st0 == "exc" else "sorting left members %s without front number or crowding distance" % unranked}]
        pop = [{"k": keys[i], "v": {"c": absvecs[i]["c"], "m": absvecs[i]["m"]},
                "front": inds[i].features["front_number"] or 0, "cd": rat(inds[i].features["crowding_distance"])}
               for i in range(n)]
        order = list(inds)
        rng.shuffle(order)
        st, res = observe(nondominated_truncate, order, case["size"])
        ev = {"ev": "trunc", "pop": pop, "size": case["size"], "kept": [], "ranked": True, "exc": ""}
        if st == "exc":
            ev["exc"] = res
        else:
            idx = []
            for r in res:
                j = next((i for i, x in enumerate(inds) if x is r), None)
                if j is None:
                    ev["exc"] = "returned a non-member"
                    break
                idx.append(j + 1)
            ev["kept"] = idx
        return [ev]

    def nontrivial(self, case, trace):
        e = trace[0]
        return len(e["kept"]) < len(e["pop"])

    def key(self, case, trace, fail):
        return "truncate:%s:%s" % ("dups" if case["dups"] else "distinct", fail["clause"])


class Tourn(Part):
    name = "tournament"
    trace_module = "SortTrace"

    def cases(self, ctx):
        rng = ctx.rng
        vecs2 = export_vecs(ctx, 2)
        cases = []
        pairs = [(a, b) for a in vecs2 for b in vecs2]
        for a, b in pairs:
            for fa, fb in ((1, 1), (1, 2), (2, 1)):
                cases.append({"kind": "pair", "a": a, "b": b, "fa": fa, "fb": fb, "cseed": rng.randrange(1 << 30)})
        for _ in range(300 if ctx.quick else 5000):
            cases.append({"kind": "pop", "n": rng.randint(1, 10), "cseed": rng.randrange(1 << 30)})
        return cases

    def run_case(self, ctx, case):
        import random as pyrandom
        from artap.operators import DummySelector, TournamentSelector
        rng = pyrandom.Random(case["cseed"])
        # half of the time the selector object of the previous case is used again (a selector lives as long as its algorithm and meets one
        # population after another)
        if rng.random() < 0.5 and getattr(type(self), "_shared_selector", None) is not None:
            sel = type(self)._shared_selector
        else:
            sel = type(self)._shared_selector = TournamentSelector([])
        if case["kind"] == "pair":
            absvecs = [case["a"], case["b"]]
            allinds = make_inds(rng, absvecs + [absvecs[0]] * rng.randint(0, 3))
            inds, filler = allinds[:2], allinds[2:]
            inds[0].features["front_number"], inds[1].features["front_number"] = case["fa"], case["fb"]
            for f in filler:
                f.features["front_number"] = 1
            pop = inds + filler
            forced = [inds[0], inds[1]]
        else:
            absvecs = [{"c": [rng.randrange(3), rng.randrange(3)], "m": rng.choice([0, 0, 0, 0, 0, 0, 1, -1, 1, 2, -2])} for _ in range(case["n"])]
            pop = make_inds(rng, absvecs)
            DummySelector([]).fast_nondominated_sorting(pop)
            forced = None
        drawn = []
        # the two candidates are observed at whatever public random API draws them (sample, choice, randrange, randint): the first two
        # members / positions drawn are the candidates; in 'pair' cases the draws are forced to the prepared pair
        saved = {k: getattr(pyrandom, k) for k in ("sample", "choice", "randrange", "randint")}

        def take(member):
            if len(drawn) < 2:
                drawn.append(member)

        def sample(population, k, **kw):
            if forced is not None and k == 2 and not drawn:
                drawn.extend(forced)
                return list(forced)
            out = saved["sample"](population, k, **kw)
            if k == 2 and not drawn and all(any(o is x for x in pop) for o in out):
                drawn.extend(out)
            return out

        def choice(seq):
            if len(drawn) < 2 and len(seq) == len(pop) and all(a is b for a, b in zip(seq, pop)):
                out = forced[len(drawn)] if forced is not None else saved["choice"](seq)
                take(out)
                return out
            return saved["choice"](seq)

        def randrange(*a, **kw):
            stop = a[0] if len(a) == 1 else None
            if len(drawn) < 2 and stop == len(pop) and not kw:
                idx = next(i for i, x in enumerate(pop) if x is forced[len(drawn)]) if forced is not None else saved["randrange"](*a)
                take(pop[idx])
                return idx
            return saved["randrange"](*a, **kw)

        def randint(lo, hi):
            if len(drawn) < 2 and lo == 0 and hi == len(pop) - 1:
                idx = next(i for i, x in enumerate(pop) if x is forced[len(drawn)]) if forced is not None else saved["randint"](lo, hi)
                take(pop[idx])
                return idx
            return saved["randint"](lo, hi)
        pyrandom.sample, pyrandom.choice, pyrandom.randrange, pyrandom.randint = sample, choice, randrange, randint
        pyrandom.seed(case["cseed"])
        try:
            st, res = observe(sel.select, pop)
        finally:
            for k, v in saved.items():
                setattr(pyrandom, k, v)
        if len(pop) == 1:
            return [{"ev": "tourn", "a": self.cand(pop[0], pop), "b": self.cand(pop[0], pop),
                     "res": "a" if (st == "ok" and res is pop[0]) else "other",
                     "member": st == "ok" and res is pop[0], "exc": "" if st == "ok" else res}]
        if st == "ok" and len(drawn) != 2:
            if any(res is x for x in pop):
                raise Skip()    # the selector did not draw its two candidates through an observable random API: the winner cannot be judged
            # ... but a result that is not even a member of the population needs no candidates to be judged
            c0 = self.cand(pop[0], pop)
            return [{"ev": "tourn", "a": c0, "b": c0, "res": "other", "member": False, "exc": ""}]
        ev = {"ev": "tourn", "a": None, "b": None, "res": "other", "member": False, "exc": ""}
        if st == "exc":
            ev["exc"] = res
            ev["a"] = ev["b"] = {"front": 0, "v": {"c": [0], "m": 0}}
            return [ev]
        a, b = drawn
        ev["a"], ev["b"] = self.cand(a, pop), self.cand(b, pop)
        ev["member"] = any(res is x for x in pop)
        if ev["member"] and res is not a and res is not b:
            raise Skip()        # a member, but not one of the inferred candidates: the draw went through a path the harness cannot observe
        ev["res"] = "a" if res is a else ("b" if res is b else "other")
        return [ev]

    @staticmethod
    def cand(ind, pop):
        ranks = absx.dense_ranks([p.costs_signed[:-1] for p in pop])
        j = next(i for i, x in enumerate(pop) if x is ind)
        return {"front": ind.features["front_number"], "v": {"c": ranks[j], "m": absx.abstract_marker(ind.costs_signed[-1])}}

    def nontrivial(self, case, trace):
        e = trace[0]
        return e["a"] != e["b"]

    def key(self, case, trace, fail):
        return "tournament:%s" % fail["clause"]


def run(ctx, replay=None):
    return core.run_property(
        ctx, [Crowd(), Trunc(), Tourn()], level="model_checking",
        assumptions=["crowding: costs are affine images (positive scale) of small integers, so gap/range ratios are exact small rationals; "
                     "the observed float is projected to the nearest rational with denominator <= 20000",
                     "truncation / tournament populations: duplicated designs carry identical costs (deterministic objective), design identity = exact vector; "
                     "crowding fronts also hold one design several times with different costs (noisy objective)",
                     "tournament candidates are observed through random.sample (the public stdlib call the selector uses)"],
        level_rule="crowding: random fronts (1..12 members, 1..3 objectives) with and without tied values / zero-range objectives; truncate: "
                   "populations of the Selection model (size <=3 over 18 vectors, all sizes k) and random populations up to 30 with duplicated "
                   "designs, ranked by the real sort; tournament: every ordered pair of the 18 model vectors x front-number relations, forced "
                   "through random.sample, plus random populations. non-trivial = front of >=3 / something discarded / two different candidates",
        replay=replay)
