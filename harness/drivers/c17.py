"""C17 -- result queries and quality indicators are faithful views of the recorded data.

spec: ResultsOps.tla (queries and indicators as definitions), Results.tla (recording state machine), ResultsTrace.tla
code: artap.results.Results, artap.quality_indicator.gd / epsilon_add, Problem.populations/population/last_population
"""
import json

from .. import absx, core, tlc
from ..core import Part, Skip, observe

MC_CFG = """CONSTANTS MaxRec = %d
Tags = {0, 1, 2}
PVals = {%s}
CVals = {%s}
SPECIFICATION Spec
INVARIANT PopulationPartition
INVARIANT PopulationOrder
INVARIANT PopulationSizes
INVARIANT DefaultIsLast
INVARIANT OptimumExists
INVARIANT SortedListingExists
CHECK_DEADLOCK FALSE
"""
GEN_CFG = """CONSTANTS MaxRec = %d
Tags = {0, 1, 2}
PVals = {0, 1, 2}
CVals = {0, 1, 2}
INIT Init
NEXT Next
INVARIANT Emit
CHECK_DEADLOCK FALSE
"""


def make_results(records, front1=None, via_store=None):
    """a real Problem whose individuals are recorded by the harness (as an algorithm would), and its Results object"""
    from artap.individual import Individual
    from artap.results import Results
    problem = absx.make_problem(2, bounds=[[-10.0, 10.0]] * 2,
                                costs=[{'name': 'c1', 'criteria': 'minimize'}, {'name': 'c2', 'criteria': 'maximize'}],
                                evaluate=lambda ind: [0.0, 0.0])
    problem.parameters[0]['name'], problem.parameters[1]['name'] = 'p1', 'p2'
    inds = []
    for r in records:
        ind = Individual([float(v) for v in r["vec"]])
        ind.costs = [float(c) for c in r["costs"]]
        ind.costs_signed = [ind.costs[0], -ind.costs[1], True]
        ind.population_id = r["tag"]
        ind.state = Individual.State.EVALUATED
        ind.features['front_number'] = 1 if (front1 and r["k"] in front1) else 2
        problem.individuals.append(ind)
        inds.append(ind)
    if via_store:
        # the same queries asked of a read-mode view of the stored run (C10 o C17): what was recorded, stored and read back must answer
        # every query exactly as the live problem would
        from artap.datastore import SqliteDataStore
        from artap.problem import ProblemViewDataStore
        store = SqliteDataStore(problem, database_name=via_store, mode="rewrite")
        problem.data_store = store
        store.sync_all()
        store.destroy()
        view = ProblemViewDataStore(via_store)
        byid = {i.id: k for k, i in enumerate(inds)}
        vinds = [None] * len(inds)
        for v in view.individuals:
            if v.id in byid:
                vinds[byid[v.id]] = v
        return view, Results(view), vinds
    return problem, Results(problem), inds


def ints(x):
    if isinstance(x, (list, tuple)):
        return [ints(v) for v in x]
    v = float(x)
    if v != int(v):
        raise ValueError("non-integral value in a result")
    return int(v)


class Queries(Part):
    name = "queries"
    trace_module = "ResultsTrace"
    trace_shards = 8

    def mc(self, ctx):
        runs = [tlc.run("Results", MC_CFG % (3, "0, 1", "0, 1"), ctx.scratch, workers=8, coverage=True, name="Results-mc3", timeout=2400)]
        if not ctx.quick:
            runs.append(tlc.run("Results", MC_CFG % (4, "0, 1", "0"), ctx.scratch, workers=16, name="Results-mc4", timeout=3000))
        return runs

    def cases(self, ctx):
        rng = ctx.rng
        cases = []
        for maxrec, num in ((1, 4), (2, 10), (3, 25), (5, 30)) if ctx.quick else ((1, 10), (2, 40), (3, 200), (5, 300), (7, 200)):
            r = tlc.run("ResultsGen", GEN_CFG % maxrec, ctx.scratch, workers=1, simulate="num=%d" % num, depth=maxrec + 1,
                        seed=ctx.seed + maxrec, name="ResultsGen-%d" % maxrec, timeout=1200)
            behs = list({b[1] for b in r.printed("BEH")})
            behs.sort()
            cap = 500 if ctx.quick else 8000
            if len(behs) > cap:
                behs = rng.sample(behs, cap)
            for b in behs:
                cases.append({"kind": "model", "recs": json.loads(b), "cseed": rng.randrange(1 << 30)})
        for _ in range(150 if ctx.quick else 3000):
            n = rng.randint(1, 40)
            recs = [{"k": i + 1, "tag": rng.choice([0, 1, 2, 3, 5, 9]), "vec": [rng.randint(-9, 9), rng.randint(-9, 9)],
                     "costs": [rng.randint(-20, 20), rng.randint(-20, 20)]} for i in range(n)]
            cases.append({"kind": "random", "recs": recs, "cseed": rng.randrange(1 << 30)})
        return cases

    def run_case(self, ctx, case):
        import random as pyrandom
        rng = pyrandom.Random(case["cseed"])
        recs = case["recs"]
        front1 = [r["k"] for r in recs if rng.random() < 0.5]
        db = None
        if case["cseed"] % 4 == 0:
            import os
            db = os.path.join(ctx.scratch, "c17-%d-%d.sqlite" % (os.getpid(), case["cseed"]))
        try:
            problem, res, inds = make_results(recs, front1, via_store=db)
        finally:
            if db:
                for ext in ("", "-journal", "-wal", "-shm"):
                    try:
                        os.remove(db + ext)
                    except OSError:
                        pass
        key = {id(i): k + 1 for k, i in enumerate(inds)}
        trace = [{"ev": "record", "k": r["k"], "tag": r["tag"], "vec": r["vec"], "costs": r["costs"]} for r in recs]
        tags = sorted({r["tag"] for r in recs})

        def q(name, fn, conv, **fields):
            ev = {"ev": "query", "name": name, "exc": "", "result": [], "tag": -1, "p": 1, "c": 1, "p2": 2, "sorted": False, "front1": front1}
            ev.update(fields)
            st, out = observe(fn)
            if st == "exc":
                ev["exc"] = out
            else:
                try:
                    ev["result"] = conv(out)
                except Exception as e:      # noqa -- an un-projectable result is an observation
                    ev["exc"] = "unexpected result shape: %s" % type(e).__name__
            trace.append(ev)
        self.ask(rng, res, q, key, tags)
        if rng.random() < 0.35 and len(recs) >= 2:
            # the recorded data changes WITHOUT changing its size (individuals moved to another generation): every answer follows
            for r in rng.sample(recs, rng.randint(1, min(3, len(recs)))):
                newtag = rng.choice([0, 1, 2, 3, 5, 9])
                inds[r["k"] - 1].population_id = newtag
                r = dict(r)
                trace.append({"ev": "retag", "k": r["k"], "tag": newtag})
            # ... and individuals replaced by new ones at the same position of the problem's list (a re-run into the same problem object)
            from artap.individual import Individual
            for r in rng.sample(recs, rng.randint(0, min(2, len(recs)))):
                k = r["k"]
                old = inds[k - 1]
                new = Individual([float(rng.randint(-9, 9)), float(rng.randint(-9, 9))])
                new.costs = [float(rng.randint(-20, 20)), float(rng.randint(-20, 20))]
                new.costs_signed = [new.costs[0], -new.costs[1], True]
                new.population_id = old.population_id
                new.state = old.state
                new.features['front_number'] = old.features.get('front_number', 2)
                pos = next(j for j, x in enumerate(res.problem.individuals) if x is old)
                res.problem.individuals[pos] = new
                inds[k - 1] = new
                key[id(new)] = k
                trace.append({"ev": "replace", "k": k, "tag": int(new.population_id), "vec": [int(v) for v in new.vector],
                              "costs": [int(c) for c in new.costs]})
            tags = sorted({int(i.population_id) for i in inds})
            self.ask(rng, res, q, key, tags)
        return trace

    @staticmethod
    def ask(rng, res, q, key, tags):
        for tag in [-1] + tags:
            q("population", lambda: res.population(tag), lambda out: [key.get(id(i), 0) for i in out], tag=tag)
        q("table", lambda: res.table(transpose=False), ints)
        q("table", lambda: res.table(transpose=True), lambda out: ints([list(r) for r in zip(*out)]))
        q("costs", lambda: res.costs(), ints)
        q("parameters", lambda: res.parameters(), ints)
        for tag in [-1] + tags[:2]:
            for srt in (False, True):
                p, c = rng.randint(1, 2), rng.randint(1, 2)
                q("goal_on_parameter", lambda: res.goal_on_parameter("p%d" % p, "c%d" % c, population_id=tag, sorted=srt), ints,
                  tag=tag, p=p, c=c, sorted=srt)
                q("parameter_on_goal", lambda: res.parameter_on_goal("c%d" % c, "p%d" % p, population_id=tag, sorted=srt), ints,
                  tag=tag, p=p, c=c, sorted=srt)
                q("parameter_on_parameter", lambda: res.parameter_on_parameter("p1", "p2", population_id=tag, sorted=srt), ints,
                  tag=tag, p=1, p2=2, sorted=srt)
            c, p = rng.randint(1, 2), rng.randint(1, 2)
            q("goal_on_index", lambda: res.goal_on_index("c%d" % c, population_id=tag), ints, tag=tag, c=c)
            q("parameter_on_index", lambda: res.parameter_on_index("p%d" % p, population_id=tag), ints, tag=tag, p=p)
            q("pareto_front", lambda: res.pareto_front(population_id=None if tag == -1 else tag), ints, tag=tag)
            q("goal_on_index_all", lambda: res.goal_on_index(population_id=tag), ints, tag=tag)
            q("parameter_on_index_all", lambda: res.parameter_on_index(population_id=tag), ints, tag=tag)
            q("pareto_individuals", lambda: res.pareto_individuals(population_id=None if tag == -1 else tag),
              lambda out: [key.get(id(i), 0) for i in out], tag=tag)
        q("population_ids", lambda: sorted(res.get_population_ids()), ints)
        q("names", lambda: res.parameter_names() + res.goal_names() + [res.parameter_number(), res.goal_number(), res.parameter_index("p1"),
                                                                       res.parameter_index("p2"), res.goal_index("c1"), res.goal_index("c2")],
          lambda out: list(out))
        for c in (1, 2):
            q("find_optimum", lambda: res.find_optimum("c%d" % c), lambda out: key.get(id(out), 0), c=c)

    def nontrivial(self, case, trace):
        return len({r["tag"] for r in case["recs"]}) >= 2

    def key(self, case, trace, fail):
        e = trace[fail["event"] - 1] if fail["event"] > 0 else {}
        return "results:%s:%s" % (e.get("name", e.get("ev", "?")), fail["clause"])

    def sample(self, case, trace):
        return {"case": {"kind": case["kind"], "recs": case["recs"][:4]}, "trace": trace[len(case["recs"]):len(case["recs"]) + 4]}


class Indicators(Part):
    name = "indicators"
    trace_module = "ResultsTrace"

    def cases(self, ctx):
        rng = ctx.rng
        cases = []
        for _ in range(400 if ctx.quick else 6000):
            dim = rng.randint(1, 3)
            nr, nc = rng.randint(1, 6), rng.randint(1, 6)
            ref = [[rng.randint(0, 12) for _ in range(dim)] for _ in range(nr)]
            style = rng.random()
            if style < 0.2:
                comp = [list(p) for p in ref]
            elif style < 0.4:
                d = rng.randint(0, 5)
                comp = [[v + d for v in p] for p in ref]
            elif style < 0.5:
                comp = [list(rng.choice(ref)) for _ in range(nc)]
            else:
                comp = [[rng.randint(0, 12) for _ in range(dim)] for _ in range(nc)]
            cases.append({"ref": ref, "comp": comp, "tuples": rng.random() < 0.5})
        # large computed sets (a final population of a few hundred designs): sizes around the powers of two, distances spread unevenly
        for nc in (127, 128, 129, 130, 200, 257, 300) if ctx.quick else (64, 65, 127, 128, 129, 130, 200, 255, 256, 257, 300, 511, 513, 600):
            for uneven in (False, True):
                dim = rng.randint(1, 3)
                ref = [[rng.randint(0, 12) for _ in range(dim)] for _ in range(rng.randint(1, 6))]
                if uneven:
                    comp = [list(rng.choice(ref)) for _ in range(nc - rng.randint(1, 3))]
                    comp += [[rng.randint(8, 12) for _ in range(dim)] for _ in range(nc - len(comp))]
                else:
                    comp = [[rng.randint(0, 12) for _ in range(dim)] for _ in range(nc)]
                cases.append({"ref": ref, "comp": comp, "tuples": rng.random() < 0.5})
        return cases

    def run_case(self, ctx, case):
        from artap.quality_indicator import epsilon_add, gd
        ref, comp = case["ref"], case["comp"]
        conv = (lambda pts: [tuple(float(v) for v in p) for p in pts]) if case["tuples"] else (lambda pts: [[float(v) for v in p] for p in pts])
        trace = []
        st, v = observe(epsilon_add, conv(ref), conv(comp))
        ev = {"ev": "indicator", "name": "eps", "ref": ref, "comp": comp, "value": 0, "integral": True, "exc": ""}
        if st == "exc":
            ev["exc"] = v
        else:
            ev["integral"] = float(v) == int(float(v))
            ev["value"] = int(float(v)) if ev["integral"] else 0
        trace.append(ev)
        st, v = observe(gd, conv(ref), conv(comp))
        ev = {"ev": "indicator", "name": "gd", "ref": ref, "comp": comp, "value": 0, "integral": True, "exc": ""}
        if st == "exc":
            ev["exc"] = v
        else:
            ev["value"] = int(round(float(v) * 1000 * len(comp)))
        trace.append(ev)
        return trace

    def nontrivial(self, case, trace):
        return case["ref"] != case["comp"]

    def key(self, case, trace, fail):
        e = trace[fail["event"] - 1] if fail["event"] > 0 else {}
        return "indicator:%s:%s" % (e.get("name", "?"), fail["clause"])


def run(ctx, replay=None):
    return core.run_property(
        ctx, [Queries(), Indicators()], level="model_checking",
        assumptions=["recorded parameters and costs are small integers (exact in floats); individuals are identified by object identity",
                     "generational distance is compared in units of 1e-3 through an integer square root (coordinates 0..17 so that squared "
                     "distances times 1e6 stay below 2^31)"],
        level_rule="TLC simulates the recording state machine (record lists of 1..5 (7) individuals over 3 tags, 3 parameter and 3 cost values, unsorted "
                   "tags, duplicates) and the lists are recorded into a real Problem; random lists up to 40 records; every Results query is called "
                   "for the default, each tag, sorted and unsorted and judged by ResultsTrace; indicators on random / identical / shifted integer "
                   "point sets. non-trivial = at least two generations / different point sets; distinct = distinct abstract traces",
        replay=replay)
