"""C06 -- transient evaluation failures are retried (<= 5 attempts), logged and never recorded as results; other
exceptions propagate at once.

spec: Job.tla with Faults = {"transient", "fatal"}; JobGen.tla emits every fault pattern; JobTrace.tla validates
code: artap.job.Job.evaluate retry loop, VectorAndNumbers.gen_vector, Problem.failed
"""
import json

from .. import core, jobrec, tlc
from ..core import Part, Skip
from .c05 import GEN_CFG, MC_CFG, behaviours

FAULTS = '"transient", "fatal"'


class Faults(Part):
    name = "fault-patterns"
    trace_module = "JobTrace"
    coverage_strict = False

    def mc(self, ctx):
        runs = []
        plan = ((3, 1, "serial", 1), (2, 2, "parallel", 1)) if ctx.quick else ((4, 1, "serial", 2), (3, 2, "parallel", 1))
        for nd, nw, mode, rep in plan:
            runs.append(tlc.run("Job", MC_CFG % (nd, nw, FAULTS, mode, rep), ctx.scratch, workers=16, coverage=True,
                                name="Job-mc-faults-%s-%d" % (mode, nd), timeout=3000))
        return runs

    def cases(self, ctx):
        rng = ctx.rng
        cases = []
        # spec -> code: every fault pattern of the serial model for 1..3 designs (which call fails, with which kind)
        for nd in (1, 2, 3):
            behs = behaviours(ctx, nd, 1, FAULTS, "serial", 1, "JobGen-faults-%d" % nd)
            uniq = {}
            for b in behs:
                uniq[(tuple(b["pre"]), tuple((h["a"], h["d"]) for h in b["hist"] if h["a"] in ("ok", "transient", "fatal")))] = b
            behs = list(uniq.values())
            cap = None if nd < 3 else (1200 if ctx.quick else 20000)
            if cap and len(behs) > cap:
                behs = rng.sample(behs, cap)
            for b in behs:
                cases.append({"kind": "pattern", "pre": b["pre"], "hist": b["hist"], "workers": 1, "cseed": rng.randrange(1 << 30)})
        # the same patterns with two worker threads (per-design outcome sequences)
        behs = behaviours(ctx, 2, 1, FAULTS, "serial", 1, "JobGen-faults-2p")
        for b in rng.sample(behs, min(len(behs), 150 if ctx.quick else 2000)):
            cases.append({"kind": "pattern", "pre": b["pre"], "hist": b["hist"], "workers": 2, "cseed": rng.randrange(1 << 30)})
        # code -> spec: random failure scripts on larger batches and inside real algorithm runs
        for _ in range(40 if ctx.quick else 500):
            cases.append({"kind": "random", "n": rng.randint(1, 12), "p": rng.choice([0.1, 0.3, 0.5, 0.8]), "pf": rng.choice([0.0, 0.0, 0.05]),
                          "workers": rng.choice([1, 1, 2, 3]), "cseed": rng.randrange(1 << 30)})
        for _ in range(8 if ctx.quick else 80):
            cases.append({"kind": "run", "alg": rng.choice(["nsga2", "epsmoea"]), "n": rng.randint(2, 8), "g": rng.randint(1, 4),
                          "p": rng.choice([0.05, 0.2, 0.4]), "cseed": rng.randrange(1 << 30)})
        return cases

    def run_case(self, ctx, case):
        import random as pyrandom
        rng = pyrandom.Random(case["cseed"])
        if case["kind"] == "run":
            return run_algorithm(rng, case)
        kinds_t = list(jobrec.TRANSIENT)
        kinds_f = list(jobrec.FATAL)
        if case["kind"] == "pattern":
            n = len(case["pre"])
            per = {}
            for h in case["hist"]:
                if h["a"] in ("ok", "transient", "fatal"):
                    per.setdefault(h["d"], []).append(h["a"])
            counters = {}

            def script(k, att, callno):
                i = counters.get(k, 0)
                counters[k] = i + 1
                seq = per.get(k, [])
                a = seq[i] if i < len(seq) else "ok"
                return "ok" if a == "ok" else (rng.choice(kinds_t) if a == "transient" else rng.choice(kinds_f))
            pre = case["pre"]
        else:
            n = case["n"]
            pre = [rng.random() < 0.2 for _ in range(n)]
            srng = pyrandom.Random(case["cseed"] + 7)

            def script(k, att, callno):
                x = srng.random()
                if x < case["pf"]:
                    return srng.choice(kinds_f)
                return srng.choice(kinds_t) if x < case["pf"] + case["p"] else "ok"
        workers = case["workers"]
        dim = rng.randint(1, 3)
        bounds = rng.choice([[[-5.0, 5.0]] * dim, [[-3.0, -1.0]] * dim, [[1e-9, 2e-9]] * dim, [[-1e6, 1e6]] * dim])
        mixed = dim >= 2 and rng.random() < 0.35
        if mixed:
            # parameters described differently: the first declares a rounding precision (its bounds are multiples of it), a later one is a
            # narrow box without any: every parameter of a replacement design is sampled according to its OWN declaration
            first = rng.choice([([-5.0, 5.0], [1.0, 0.5]), ([0.25, 0.75], [0.25]), ([0.125, 0.875], [0.125]), ([-1.75, 2.25], [0.25])])
            bounds = [list(first[0])] + [rng.choice([[0.2, 0.4], [1e-9, 2e-9], [-3.0, -1.0]]) for _ in range(dim - 1)]
            mixed_prec = rng.choice(first[1])
        gate = None
        if workers > 1:
            import threading
            import time
            glock = threading.Lock()
            grng = pyrandom.Random(case["cseed"] + 21)

            def gate(kind, k):
                # keep several objective calls in flight at once: failures of different designs must interleave
                with glock:
                    d = grng.choice([0.0005, 0.001, 0.002])
                time.sleep(d)
        rec = jobrec.Rec(dim=dim, m=rng.randint(1, 2), bounds=bounds, constrained=rng.random() < 0.5, script=script, gate=gate,
                         mode="serial" if workers == 1 else "parallel", workers=workers)
        if mixed:
            rec.problem.parameters[0]['precision'] = mixed_prec
        elif case["cseed"] % 4 == 1:
            # a zooming study: the algorithm (with its evaluator and job) exists already when the problem is given a NEW, narrower parameter
            # list; a design put in place of a failed one is drawn from the box the problem declares now
            from artap.algorithm import DummyAlgorithm
            rec._alg = DummyAlgorithm(rec.problem)
            bounds = [[lb + (ub - lb) * 0.25, ub - (ub - lb) * 0.25] for lb, ub in bounds]
            rec.problem.parameters = [dict(p, bounds=list(b)) for p, b in zip(rec.problem.parameters, bounds)]
            rec.bounds = [list(b) for b in bounds]
        vectors = [[rng.uniform(b[0], b[1]) for b in bounds] for _ in range(n)]
        rec.new_batch(vectors, pre=pre)
        exc = jobrec.evaluate_batch(rec, workers=workers)
        rec.end_event(exc)
        return rec.events + rec.signed_events()

    def nontrivial(self, case, trace):
        return any(e["ev"] == "ret" and e["out"] != "ok" for e in trace)

    def key(self, case, trace, fail):
        e = trace[fail["event"] - 1] if fail["event"] > 0 else {}
        return "faults:%s:%s:%s" % (case["kind"], e.get("ev", "?"), fail["clause"])

    def sample(self, case, trace):
        return {"case": case, "trace": trace[:8]}


def run_algorithm(rng, case):
    """a whole NSGA-II / eps-MOEA run with a random transient-failure script; designs are registered as they appear"""
    import random as pyrandom
    pyrandom.seed(case["cseed"])
    srng = pyrandom.Random(case["cseed"] + 13)
    consecutive = {}

    def script(k, att, callno):
        # never let a design fail five times in a row here (that ends the run with RuntimeError; covered by the patterns)
        if att < 3 and srng.random() < case["p"]:
            return srng.choice(list(jobrec.TRANSIENT))
        return "ok"
    rec = jobrec.Rec(dim=2, m=2, bounds=[[0.0, 1.0], [-2.0, 2.0]], script=script, mode="serial")
    dynamic_registration(rec)
    if case["alg"] == "nsga2":
        from artap.algorithm_NSGAII import NSGAII
        alg = NSGAII(rec.problem)
    else:
        from artap.algorithm_genetic import EpsMOEA
        alg = EpsMOEA(rec.problem)
    alg.options['max_population_number'] = case["g"]
    alg.options['max_population_size'] = case["n"]
    alg.options['verbose_level'] = 0
    exc = None
    try:
        alg.run()
    except RuntimeError as e:
        exc = e
    return finish_dynamic(rec, exc)


def dynamic_registration(rec):
    """designs created by an algorithm are registered at their first objective call (strong references prevent id reuse)"""
    rec.keep = []
    rec.first_v = {}
    orig = rec._evaluate

    def evaluate(individual):
        with rec.lock:
            if id(individual) not in rec.design:
                rec.keep.append(individual)
                rec.design[id(individual)] = len(rec.keep)
                rec.first_v[len(rec.keep)] = rec.vkey(individual.vector)
        return orig(individual)
    rec.problem.__class__.evaluate = lambda self, individual: evaluate(individual)
    return rec


def finish_dynamic(rec, exc):
    rec.inds = list(rec.keep)
    rec.pre = [False] * len(rec.inds)
    batch = {"ev": "batch", "mode": rec.mode, "store": bool(rec.db),
             "designs": [{"k": i + 1, "pre": False, "v": rec.first_v[i + 1]} for i in range(len(rec.inds))]}
    events = [batch] + rec.events
    rec.events = events
    rec.end_event(exc)
    return rec.events


def run(ctx, replay=None):
    return core.run_property(
        ctx, [Faults()], level="model_checking",
        assumptions=["TimeoutError / RuntimeError are the transient kinds, ValueError / ZeroDivisionError / KeyError stand for 'any other exception'",
                     "the objective is a deterministic fixed-point function of the vector; vectors are identified by exact tuple",
                     "in threaded runs the exception seen by the caller may be either kind when both occurred"],
        level_rule="TLC emits every fault pattern (ok / transient / fatal per objective call, up to five attempts per design, incl. exactly four and "
                   "exactly five consecutive failures) of the serial Job model for batches of 1..3 designs x initial states; each becomes a scripted "
                   "objective run through Algorithm.evaluate serially and with 2 threads; random scripts on batches up to 12 with 1-3 workers on four "
                   "box classes and whole NSGA-II / eps-MOEA runs with failures are recorded too; JobTrace validates every event. non-trivial = at "
                   "least one failing call; distinct = distinct abstract traces",
        replay=replay)
