"""C20 -- design-point equality means equal coordinates and agrees with hashing.

spec: Identity.tla (state machine over pop / kids), IdentityGen.tla (case generator), IdentityTrace.tla (validator)
code: artap.individual.Individual.__eq__/__hash__, GeneticAlgorithm.generate, set(), list.remove, `in`
"""
import json
import math
import os

from .. import core, tlc
from ..core import Part, Skip, observe

MC_CFG = """CONSTANTS Dim = %d
Cells = {0, 1}
Offs = {0, 1}
MaxOps = %d
SPECIFICATION Spec
INVARIANT KidsDistinct
INVARIANT NothingLost
INVARIANT RefDedupeOK
PROPERTY RemoveLaw
CHECK_DEADLOCK FALSE
"""
GEN_CFG = """CONSTANTS Dim = %d
Cells = {0, 1}
Offs = {0, 1}
MaxOps = %d
INIT GInit
NEXT GNext
INVARIANT Emit
CHECK_DEADLOCK FALSE
"""
TRACE_CFG = """CONSTANTS Dim = 1
Cells = {0}
Offs = {0}
MaxOps = 0
""" + core.TRACE_CFG

# pools of "far apart" base values per cell; includes the hash(-1.0) == hash(-2.0) collision family,
# values only 1e-9 apart (just beyond the tolerance), zero, negative zero-neighbours and larger magnitudes
POOLS = [
    [-1.0, -2.0], [-2.0, -1.0], [0.0, 1e-9], [1.0, 1.0 + 1e-9], [0.5, 0.75], [-3.25, 8.5], [1e-9, 2e-9],
    [100.0, -100.0], [2.0, 5.0], [0.1, 0.2], [-0.1, 0.3], [7.0, 7.000001],
]


def concretise(rng, points, dim):
    """abstract points (lists of [cell, off]) -> float vectors; returns floats and the re-derived abstraction."""
    pool = [rng.choice(POOLS) for _ in range(dim)]
    delta = [rng.choice([1e-11, 5e-12, 2e-12, -7e-12]) for _ in range(dim)]
    vecs = []
    for p in points:
        vecs.append([pool[i][p[i][0]] + p[i][1] * delta[i] for i in range(dim)])
    return vecs


def project(vecs):
    """floats -> [cell, off] per coordinate, derived from the floats themselves (sound whatever produced them)."""
    if not vecs:
        return []
    dim = len(vecs[0])
    out = [[None] * dim for _ in vecs]
    for i in range(dim):
        vals = sorted({v[i] for v in vecs})
        cells = []            # list of lists of identical floats
        for x in vals:
            if cells and abs(x - cells[-1][0]) < 1e-10:
                if abs(x - cells[-1][0]) > 2e-11 or abs(x - cells[-1][-1]) > 2e-11:
                    raise Skip()
                cells[-1].append(x)
            else:
                if cells and abs(x - cells[-1][-1]) < 9e-10:
                    raise Skip()       # too close to the tolerance to classify
                cells.append([x])
        for k, v in enumerate(vecs):
            for ci, c in enumerate(cells):
                if v[i] in c:
                    out[k][i] = [ci, c.index(v[i])]
    return out


def absx_classes():
    from artap.algorithm_NSGAII import IndividualNSGAII
    from artap.algorithm_genetic import IndividualEpsMOEA
    from artap.algorithm_swarm import IndividualSwarm
    from artap.individual import Individual
    return [Individual, IndividualNSGAII, IndividualEpsMOEA, IndividualSwarm, Individual]


class Pairs(Part):
    name = "pairs"
    trace_module = "IdentityTrace"
    trace_cfg = TRACE_CFG

    def mc(self, ctx):
        out = []
        for dim, ops in ((1, 4), (2, 3)) if ctx.quick else ((1, 5), (2, 3), (3, 2)):
            out.append(tlc.run("Identity", MC_CFG % (dim, ops), ctx.scratch, workers=4, coverage=True,
                               name="Identity-mc-d%d" % dim, timeout=900))
        # TLAPS side-car (not the deciding mechanism): the equality laws for any number of coordinates, and non-transitivity of tolerance equality
        tlc.sidecar(ctx, "tlapm proofs/IdentityLaws.tla (reflexive, symmetric, identical => equal, any coordinate decides, not transitive)",
                    tlc.tlapm, "proofs/IdentityLaws.tla", ctx.scratch)
        return out

    def cases(self, ctx):
        cases = []
        dims = (1, 2, 3) if ctx.quick else (1, 2, 3, 4)
        for dim in dims:
            out = os.path.join(ctx.scratch, "pairs%d.json" % dim)
            tlc.run("IdentityGen", GEN_CFG % (dim, 0), ctx.scratch, env={"OUT": out}, workers=1,
                    name="IdentityGen-pairs%d" % dim)
            table = json.load(open(out))
            os.remove(out)
            if dim == 4 or (ctx.quick and dim == 3):
                table = ctx.rng.sample(table, 6000 if dim == 4 else 1500)
            reps = 1 if dim >= 3 else 3
            for a, b in table:
                for r in range(reps):
                    va, vb = concretise(ctx.rng, [a, b], dim)
                    cases.append({"kind": "pair", "a": va, "b": vb, "relocated": ctx.rng.random() < 0.25})
        return cases

    def run_case(self, ctx, case):
        from artap.individual import Individual
        va, vb = case["a"], case["b"]
        pa, pb = project([va, vb])
        import random as pyrandom
        rng = pyrandom.Random(hash((tuple(va), tuple(vb))) & 0xFFFFFFF)

        def maybe_int(vec):
            # integral coordinates may be given as Python ints or numpy scalars: 1, 1.0 and np.float64(1.0) are the same coordinate
            r = rng.random()
            if r < 0.2:
                return [int(x) if float(x) == int(x) else x for x in vec]
            if r < 0.35:
                import numpy as np
                return [np.float64(x) for x in vec]
            return list(vec)
        # the two points may be objects of different design classes (a plain Individual read back from a store or put in place of a failed
        # design next to the algorithm's own subclass): what they are compared by is their coordinates
        classes = absx_classes()
        h = rng.randrange(25)
        cls_a, cls_b = (classes[h % 5], classes[h // 5]) if case.get("mixed", True) else (Individual, Individual)
        a, b = cls_a(maybe_int(va)), cls_b(maybe_int(vb))
        if rng.random() < 0.25:
            # ids are bookkeeping, not identity of the design point: designs read back from a store (from_dict keeps the stored id while a new
            # session's counter restarts) or deep copies that were moved afterwards share an id with a different point
            if rng.random() < 0.5:
                b = Individual.from_dict(dict(b.to_dict(), id=a.id))
            else:
                import copy
                moved = copy.deepcopy(a)
                moved.vector = list(b.vector)
                b = moved
        if case.get("relocated"):
            # the design was somewhere else first and has been hashed there (as offspring are before mutation replaces their vector)
            a = cls_a([v + 1.0 for v in va])
            hash(a)
            len({a})
            a.vector = list(va)
        ev = {"ev": "pair", "a": pa, "b": pb, "exc": "", "eq_ab": False, "eq_ba": False, "hash_eq": False,
              "a_in_b": False, "setsize": 0, "removed_a": False}

        def body():
            ev["eq_ab"] = bool(a == b)
            ev["eq_ba"] = bool(b == a)
            ev["hash_eq"] = hash(a) == hash(b)
            ev["a_in_b"] = a in [b]
            ev["setsize"] = len(set([a, b]))
            lst = [b, a]
            lst.remove(a)
            ev["removed_a"] = len(lst) == 1 and lst[0] is b
        st, val = observe(body)
        if st == "exc":
            ev["exc"] = val
        return [ev]

    def nontrivial(self, case, trace):
        e = trace[0]
        return e["a"] != e["b"]

    def key(self, case, trace, fail):
        e = trace[0]
        diff = [i for i in range(len(e["a"])) if e["a"][i][0] != e["b"][i][0]]
        where = "none" if not diff else ("last" if diff == [len(e["a"]) - 1] else
                                          ("not-last" if len(e["a"]) - 1 not in diff else "incl-last"))
        return "pair:%s:differs=%s" % (fail["clause"], where)


class Lists(Part):
    """Behaviours of the Identity state machine replayed on real lists of Individuals and on generate()."""
    name = "lists"
    trace_module = "IdentityTrace"
    trace_cfg = TRACE_CFG

    def cases(self, ctx):
        cases = []
        plan = ((1, 4, 40), (2, 4, 40)) if ctx.quick else ((1, 5, 200), (2, 5, 300), (3, 4, 200))
        for dim, ops, num in plan:
            r = tlc.run("IdentityGen", GEN_CFG % (dim, ops), ctx.scratch, env={"OUT": ""}, workers=1,
                        simulate="num=%d" % num, depth=ops + 1, seed=ctx.seed + 11 * dim,
                        name="IdentityGen-beh%d" % dim)
            behs = r.printed("BEH")
            if not behs:
                raise tlc.MachineryError("IdentityGen emitted no behaviours")
            seen = set()
            for b in behs:
                if b[1] in seen:
                    continue
                seen.add(b[1])
                cases.append({"kind": "beh", "dim": dim, "ops": json.loads(b[1]), "cseed": ctx.rng.randrange(1 << 30)})
        # beyond the model's bounds: longer lists with many repeats, de-duplicated at the end (merged NSGA-II populations look like this)
        rng = ctx.rng
        for _ in range(150 if ctx.quick else 3000):
            dim = rng.randint(1, 3)
            pts = [[[rng.randrange(2), 0] for _ in range(dim)] for _ in range(rng.randint(2, 4))]
            ops = [{"op": "append", "p": rng.choice(pts)} for _ in range(rng.randint(3, 9))] + [{"op": "dedupe", "p": []}]
            cases.append({"kind": "beh", "dim": dim, "ops": ops, "cseed": rng.randrange(1 << 30)})
        # candidate streams for generate(): matings whose two children coincide with each other (and with earlier offspring or not)
        for _ in range(120 if ctx.quick else 2500):
            dim = rng.randint(1, 3)
            pts = [[[rng.randrange(2), rng.randrange(2)] for _ in range(dim)] for _ in range(rng.randint(3, 5))]
            ops = []
            for _ in range(rng.randint(2, 5)):
                a = rng.choice(pts)
                b = a if rng.random() < 0.4 else rng.choice(pts)
                ops += [{"op": "offer", "p": a}, {"op": "offer", "p": b}]
            cases.append({"kind": "beh", "dim": dim, "ops": ops, "cseed": rng.randrange(1 << 30)})
        return cases

    def run_case(self, ctx, case):
        import random as pyrandom
        from artap.individual import Individual
        rng = pyrandom.Random(case["cseed"])
        ops, dim = case["ops"], case["dim"]
        pts = [o["p"] for o in ops if o["op"] != "dedupe"]
        vecs = concretise(rng, pts, dim)
        proj = project(vecs)
        # map each op to its concrete vector / projected point
        it = iter(zip(vecs, proj))
        trace = []
        pop = []        # real list of Individuals
        popabs = []     # their projected points
        offers, offers_abs = [], []
        for o in ops:
            if o["op"] == "dedupe":
                if not pop:
                    continue
                if rng.random() < 0.5:
                    st, res = observe(lambda: list(set(pop)))
                else:
                    # the framework's own call site of set-based de-duplication: environmental selection without truncation.  Repeated
                    # designs carry the same rank and crowding distance; different designs may tie with them.
                    from artap.operators import nondominated_truncate
                    feat = {}
                    for x, a in zip(pop, popabs):
                        key = json.dumps(a)
                        if key not in feat:
                            feat[key] = (rng.choice([1, 1, 2]), rng.choice([0.0, 0.5, math.inf]))
                        x.features["front_number"], x.features["crowding_distance"] = feat[key]
                    st, res = observe(nondominated_truncate, list(pop), len(pop))
                ev = {"ev": "dedupe", "lst": list(popabs), "res": [], "exc": ""}
                if st == "exc":
                    ev["exc"] = res
                else:
                    ev["res"] = [next(i for i, x in enumerate(pop) if x is y) + 1 for y in res]
                    pop = res
                    popabs = [popabs[i - 1] for i in ev["res"]]
                trace.append(ev)
                continue
            v, a = next(it)
            if o["op"] == "append":
                pop.append(rng.choice(absx_classes())(list(v)))
                popabs.append(a)
            elif o["op"] == "remove":
                probe = rng.choice(absx_classes())(list(v))
                before = list(pop)
                ev = {"ev": "remove", "lst": list(popabs), "p": a, "res": [], "found": False, "exc": ""}

                via_archive = rng.random() < 0.4 and len(pop) > 0

                def body():
                    if via_archive:
                        # the same removal through the public Archive.remove (members are made mutually non-dominated so that all are kept)
                        from artap.archive import Archive
                        from artap.operators import ParetoDominance
                        arch = Archive(ParetoDominance())
                        for k, m in enumerate(pop):
                            m.costs_signed = [float(k), float(-k), False]
                            arch.add(m)
                        # membership in the archive is membership of the DESIGN POINT: the probe may carry the costs of another member, or none
                        probe.costs_signed = list(rng.choice(pop).costs_signed) if rng.random() < 0.5 else []
                        inside = probe in arch
                        found = arch.remove(probe)
                        pop[:] = list(arch)
                        if bool(inside) != bool(found):
                            raise AssertionError("'probe in archive' is %s but Archive.remove(probe) reports %s" % (bool(inside), bool(found)))
                        return bool(found)
                    try:
                        pop.remove(probe)
                        return True
                    except ValueError:
                        return False
                st, res = observe(body)
                if st == "exc":
                    ev["exc"] = res
                else:
                    ev["found"] = res
                    ev["res"] = [next(i for i, x in enumerate(before) if x is y) + 1 for y in pop]
                    popabs = [popabs[i - 1] for i in ev["res"]]
                trace.append(ev)
            else:
                offers.append(v)
                offers_abs.append(a)
        if offers:
            g = self.generate(offers, offers_abs)
            if g is not None:
                trace.append(g)
        if not trace:
            raise Skip()
        return trace

    @staticmethod
    def generate(offers, offers_abs):
        """One GeneticAlgorithm.generate() call whose crossover is scripted to deliver the offered candidates."""
        from artap.algorithm_genetic import GeneticAlgorithm
        from artap.individual import Individual
        from artap.problem import Problem
        from .. import absx
        # number of pairwise different designs among the candidates = requested offspring count
        classes = []
        for a in offers_abs:
            if not any(all(x[0] == y[0] for x, y in zip(a, c)) for c in classes):
                classes.append(a)
        size = len(classes)
        if size < 2:
            # population sizes below 2 are outside the properties' quantifier (C09: N >= 2). Observed, not judged:
            # with max_population_size = 1 generate() returns the first child twice.
            return None
        dim = len(offers[0])
        problem = absx.make_problem(dim)
        alg = GeneticAlgorithm(problem)
        alg.options['max_population_size'] = size
        stream = list(offers)
        consumed = [0]

        class Sel:
            def select(self, parents):
                return parents[0]

        class Cross:
            def cross(self, v1, v2):
                out = []
                for _ in range(2):
                    if consumed[0] >= len(stream):
                        raise IndexError("candidate stream exhausted: generate() wants more candidates than distinct designs")
                    out.append(list(stream[consumed[0]]))
                    consumed[0] += 1
                return out[0], out[1]

        class Mut:
            def mutate(self, v, other=None):
                return v
        # generate() draws candidates in pairs: pad the stream with repeats of the last candidate
        stream = stream + [stream[-1]] * (len(stream) % 2)
        offers_abs = offers_abs + [offers_abs[-1]] * (len(offers_abs) % 2)
        alg.selector, alg.crossover, alg.mutator = Sel(), Cross(), Mut()
        parents = [Individual(list(offers[0]))]
        ev = {"ev": "generate", "cands": offers_abs, "consumed": 0, "size": size, "res": [], "exc": ""}
        st, res = observe(alg.generate, parents)
        ev["consumed"] = consumed[0]
        if st == "exc":
            ev["exc"] = res
        else:
            idx = []
            for child in res:
                # identify which candidate each offspring is: first unused candidate with the identical vector
                k = next((i for i in range(consumed[0]) if stream[i] == child.vector and (i + 1) not in idx), None)
                if k is None:
                    k = next((i for i in range(consumed[0]) if stream[i] == child.vector), 0)
                idx.append(k + 1)
            ev["res"] = idx
        return ev

    def key(self, case, trace, fail):
        e = trace[fail["event"] - 1] if fail["event"] > 0 else {}
        return "lists:%s:%s" % (e.get("ev", "?"), fail["clause"])


def run(ctx, replay=None):
    parts = [Pairs(), Lists()]
    return core.run_property(
        ctx, parts, level="model_checking",
        assumptions=[
            "coordinates are finite floats; 'coincide' = |difference| < 1e-10; generated differences are <= 2e-11 or >= 9e-10 "
            "(cases closer to the tolerance are skipped, never reported)",
            "the abstraction (cell, off) is re-derived from the concrete floats before each observation",
            "TLC 1.8 and the JSON community module are trusted to evaluate the Identity operators"],
        level_rule="cases: every pair of abstract points TLC enumerates for Dim<=3 (quick: Dim 3 sampled) x random concretisations "
                   "from value pools incl. the hash(-1)==hash(-2) family, plus simulated behaviours of the Identity state machine "
                   "replayed on real lists / generate(); non-trivial = pair of non-identical points, or a list behaviour; "
                   "distinct = distinct projected traces",
        replay=replay)
