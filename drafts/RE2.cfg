CONSTANTS NParams = 2
UserM = 1
MaxBatches = 3
BatchSizes = {1,2}
ResetLists = FALSE
SPECIFICATION Spec
INVARIANT CostLen
INVARIANT ProcessedOnce
INVARIANT Children
INVARIANT CallBudget
CHECK_DEADLOCK FALSE
