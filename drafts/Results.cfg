CONSTANTS MaxRec = 3
Tags = {0,1,2}
PVals = {0,1}
CVals = {0,1}
Dir <- DirMinMax
SPECIFICATION Spec
INVARIANT PopulationPartition
INVARIANT OptimumExists
CHECK_DEADLOCK FALSE
