CONSTANTS M = 1
Vals = {0,1,2,3}
Marks = {0}
N = 3
G = 5
SPECIFICATION Spec
INVARIANT Budget
INVARIANT Size
INVARIANT Elitism
INVARIANT Monotone
CHECK_DEADLOCK FALSE
