---- MODULE Swarm ----
EXTENDS Dominance, TLC, FiniteSetsExt
CONSTANTS Lb, Ub, PosRange, VelRange, Kinds      \* Kinds \subseteq {"reverse", "damp"}: OMOPSO/PSOGA reverse, SMPSO damps by 1/1000
\* velocities are rationals <<num, den>> so that the 0.001 damping is exact
HalfRange2 == Ub - Lb                              \* 2 * (range / 2)
Clamp2(v2) == IF v2 > HalfRange2 THEN HalfRange2 ELSE IF v2 < -HalfRange2 THEN -HalfRange2 ELSE v2   \* on doubled values
\* position update of one coordinate, exactly as coded: add, then test upper, then test lower
Move(kind, pos, vel) ==
  LET x  == pos + vel
      f  == IF kind = "reverse" THEN <<-1, 1>> ELSE <<1, 1000>>
      x1 == IF x > Ub THEN Ub ELSE x
      v1 == IF x > Ub THEN <<vel * f[1], f[2]>> ELSE <<vel, 1>>
      x2 == IF x1 < Lb THEN Lb ELSE x1
      v2 == IF x1 < Lb THEN <<v1[1] * f[1], v1[2] * f[2]>> ELSE v1
  IN [pos |-> x2, vel |-> v2]
\* the property's postcondition
MoveOK(kind, pos, vel, r) ==
  LET x == pos + vel IN
  /\ r.pos >= Lb /\ r.pos <= Ub
  /\ x > Ub => (r.pos = Ub /\ r.vel[1] * (IF kind = "reverse" THEN 1 ELSE 1000) = (IF kind = "reverse" THEN -vel ELSE vel) * r.vel[2])
  /\ x < Lb => (r.pos = Lb /\ r.vel[1] * (IF kind = "reverse" THEN 1 ELSE 1000) = (IF kind = "reverse" THEN -vel ELSE vel) * r.vel[2])
  /\ (x >= Lb /\ x <= Ub) => (r.pos = x /\ r.vel[1] = vel * r.vel[2])
\* personal best: replaced unless the old best dominates the new position
UpdateBest(new, old) == IF ParetoCmp(new, old) # 2 THEN new ELSE old
PosDef == -3..7
VelDef == -9..9
VARIABLES pos, vel, kind, new, old
vars == <<pos, vel, kind, new, old>>
Init == pos \in PosRange /\ vel \in VelRange /\ kind \in Kinds /\ new \in Vec /\ old \in Vec
Next == UNCHANGED vars
Spec == Init /\ [][Next]_vars
InvMove  == MoveOK(kind, pos, vel, Move(kind, pos, vel))
InvBest  == LET b == UpdateBest(new, old) IN
            /\ (ParetoCmp(old, new) = 1) => b = old          \* never replaced by a position it dominates
            /\ (ParetoCmp(old, new) # 1) => b = new          \* otherwise always replaced
InvClamp == \A v2 \in { 2 * v : v \in VelRange } : Clamp2(v2) <= HalfRange2 /\ Clamp2(v2) >= -HalfRange2
====
