---- MODULE Results ----
EXTENDS Integers, Sequences, FiniteSets, TLC, FiniteSetsExt, SequencesExt
CONSTANTS MaxRec, Tags, PVals, CVals, Dir       \* Dir: sequence over {"min","max"}, one entry per objective
DirMinMax == <<"min", "max">>
DirMin == <<"min">>
NP == 2
NC == Len(Dir)
Rec == [tag : Tags, vec : [1..NP -> PVals], costs : [1..NC -> CVals]]
VARIABLE recs                                   \* Problem.individuals in recording order
Init == recs \in UNION { [1..k -> Rec] : k \in 1..MaxRec }
Next == UNCHANGED recs
Spec == Init /\ [][Next]_recs
\* ---- the queries, as definitions ----
LastTag == Max({ recs[i].tag : i \in DOMAIN recs })
PopIdx(t) == SelectSeq([ i \in DOMAIN recs |-> i ], LAMBDA i : recs[i].tag = t)      \* indices, recording order
Population(t) == [ j \in DOMAIN PopIdx(t) |-> recs[PopIdx(t)[j]] ]
DefaultPopulation == Population(LastTag)
IsOptimum(i, c) == /\ i \in DOMAIN recs
                   /\ IF Dir[c] = "min" THEN \A j \in DOMAIN recs : recs[i].costs[c] <= recs[j].costs[c]
                                        ELSE \A j \in DOMAIN recs : recs[i].costs[c] >= recs[j].costs[c]
\* pairing queries: result is a pair of equally long sequences; as a bag of pairs it must equal the population's bag
PairsOf(pop, p, c) == [ j \in DOMAIN pop |-> <<pop[j].vec[p], pop[j].costs[c]>> ]
SameBag(s, t) == /\ Len(s) = Len(t)
                 /\ \A e \in Range(s) \cup Range(t) :
                      Cardinality({ i \in DOMAIN s : s[i] = e }) = Cardinality({ i \in DOMAIN t : t[i] = e })
GoalOnParameterOK(p, c, sorted, xs, ys) ==
   /\ Len(xs) = Len(ys)
   /\ SameBag([ j \in DOMAIN xs |-> <<xs[j], ys[j]>> ], PairsOf(DefaultPopulation, p, c))
   /\ sorted => \A j \in 1..(Len(xs) - 1) : xs[j] <= xs[j + 1]
   /\ ~sorted => [ j \in DOMAIN xs |-> <<xs[j], ys[j]>> ] = PairsOf(DefaultPopulation, p, c)
\* ---- indicators on integer point sets ----
MaxOver(S) == Max(S)
EpsAdd(ref, comp) ==                                                \* max over ref of min over comp of max_i (comp_i - ref_i), floored at 0
  LET inner(r, q) == Max({ q[i] - r[i] : i \in DOMAIN r })
      perRef(r)   == Min({ inner(r, q) : q \in comp })
  IN Max({0} \cup { perRef(r) : r \in ref })
NearestSq(q, ref) == Min({ LET d == [ i \in DOMAIN q |-> (q[i] - r[i]) * (q[i] - r[i]) ] IN d[1] + d[2] : r \in ref })   \* 2-D points
\* ---- sanity theorems checked by TLC on all small record lists ----
PopulationPartition == \A i \in DOMAIN recs : \E j \in DOMAIN Population(recs[i].tag) : Population(recs[i].tag)[j] = recs[i]
OptimumExists == \A c \in 1..NC : \E i \in DOMAIN recs : IsOptimum(i, c)
Pts == [1..2 -> 0..2]
IndicatorLaws == \A A \in (SUBSET Pts) \ {{}} :
                    /\ EpsAdd(A, A) = 0
                    /\ \A d \in 0..2 : EpsAdd(A, { [i \in 1..2 |-> a[i] + d] : a \in A }) = d
                    /\ \A a \in A : NearestSq(a, A) = 0
====
