CONSTANTS M = 2
Vals = {0,1,2}
Marks = {0}
N = 2
G = 3
MaxFail = 1
SPECIFICATION Spec
INVARIANT Budget
INVARIANT Tags
PROPERTY Elitism
PROPERTY Monotone
CHECK_DEADLOCK FALSE
