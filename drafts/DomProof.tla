---- MODULE DomProof ----
EXTENDS Integers, TLAPS
CONSTANT Idx
Vec == [Idx -> Int]
Dominates(p,q) == /\ \A i \in Idx : p[i] <= q[i]
                  /\ \E i \in Idx : p[i] < q[i]
THEOREM Irrefl == \A p \in Vec : ~Dominates(p,p)
  BY DEF Dominates, Vec
THEOREM Asym == \A p, q \in Vec : Dominates(p,q) => ~Dominates(q,p)
  BY DEF Dominates, Vec
THEOREM Trans == \A p, q, r \in Vec : Dominates(p,q) /\ Dominates(q,r) => Dominates(p,r)
  BY DEF Dominates, Vec
====
