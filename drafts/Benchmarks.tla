---- MODULE Benchmarks ----
EXTENDS Integers, Sequences, FiniteSets, TLC, FiniteSetsExt
CONSTANTS MObj, K          \* objectives m >= 2, number of distance variables k (DTLZ2-4 use k = 10 in the code; the model takes k as a parameter)
\* Lattice: position variables x[1..m-1] in {0,1}; distance variables x[m..m+k-1] in quarter units 0..4 (0, 1/4, 1/2, 3/4, 1)
NVar == MObj + K - 1
PosIdx == 1..(MObj - 1)
DistIdx == MObj..NVar
Points == [ 1..NVar -> 0..4 ]
OnLattice(x) == \A j \in PosIdx : x[j] \in {0, 4}           \* position variables 0 or 1 (in quarter units 0 or 4)
\* exact g in sixteenths
RECURSIVE SumSq(_, _)
SumSq(x, S) == IF S = {} THEN 0 ELSE LET j == CHOOSE i \in S : TRUE IN (x[j] - 2) * (x[j] - 2) + SumSq(x, S \ {j})
Odd(x) == Cardinality({ j \in DistIdx : x[j] % 2 = 1 })
G24num(x) == SumSq(x, DistIdx)                               \* g = G24num / 16              (DTLZ2, DTLZ4)
G13num(x) == 100 * SumSq(x, DistIdx) + 3200 * Odd(x)         \* g = G13num / 16: cos(20 pi (q/4 - 1/2)) = +1 for even q, -1 for odd q
\* cos(x pi/2), sin(x pi/2), and DTLZ1's factors x, 1-x on {0,1}
Cs(q) == IF q = 0 THEN 1 ELSE 0
Sn(q) == IF q = 4 THEN 1 ELSE 0
RECURSIVE ProdC(_, _)
ProdC(x, n) == IF n = 0 THEN 1 ELSE Cs(x[n]) * ProdC(x, n - 1)      \* product of cos over x[1..n]
RECURSIVE ProdX(_, _)
ProdX(x, n) == IF n = 0 THEN 1 ELSE Sn(x[n]) * ProdX(x, n - 1)      \* product of x[1..n] on {0,1}
\* objective i = 1..m (the code's i = 0..m-1): cos-product over the first m-i variables, one sin of variable m-i+1 (i > 1)
Shape2(x, i) == ProdC(x, MObj - i) * (IF i > 1 THEN Sn(x[MObj - i + 1]) ELSE 1)       \* in {0,1}
Shape1(x, i) == ProdX(x, MObj - i) * (IF i > 1 THEN Cs(x[MObj - i + 1]) ELSE 1)       \* (1 - x) = Cs on {0,1}
\* objective values as rationals with denominator 16 (DTLZ2-4) resp. 32 (DTLZ1)
F2num(x, i, gnum) == Shape2(x, i) * (16 + gnum)            \* f_i = (1 + g) * shape
F1num(x, i)       == Shape1(x, i) * (16 + G13num(x))       \* f_i = (1 + g)/2 * shape, denominator 32
VARIABLE x
Init == x \in { p \in Points : OnLattice(p) }
Next == UNCHANGED x
Spec == Init /\ [][Next]_x
Objs == 1..MObj
\* ---- C16 identities on the lattice (design check of the transcription) ----
RECURSIVE SumF1(_, _)
SumF1(p, S) == IF S = {} THEN 0 ELSE LET i == CHOOSE j \in S : TRUE IN F1num(p, i) + SumF1(p, S \ {i})
SumIdentity1 == SumF1(x, Objs) = 16 + G13num(x)                               \* sum f_i = (1+g)/2   (both sides times 32)
RECURSIVE SumSqF2(_, _, _)
SumSqF2(p, S, g) == IF S = {} THEN 0 ELSE LET i == CHOOSE j \in S : TRUE IN F2num(p, i, g) * F2num(p, i, g) + SumSqF2(p, S \ {i}, g)
NormIdentity2 == SumSqF2(x, Objs, G24num(x)) = (16 + G24num(x)) * (16 + G24num(x))
ExactlyOne2   == Cardinality({ i \in Objs : Shape2(x, i) = 1 }) = 1
NonNeg        == \A i \in Objs : F1num(x, i) >= 0 /\ F2num(x, i, G24num(x)) >= 0
====
