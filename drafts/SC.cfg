CONSTANTS NDesigns = 3
NWorkers = 2
Mode = "per-individual"
SPECIFICATION Spec
INVARIANT ReturnedAreDurable
INVARIANT RowsConsistent
CHECK_DEADLOCK FALSE
