CONSTANTS M = 2
Vals = {0,1,2}
Marks = {0,1}
Lb = 0
Ub = 4
PosRange <- PosDef
VelRange <- VelDef
Kinds = {"reverse","damp"}
SPECIFICATION Spec
INVARIANT InvMove
INVARIANT InvBest
INVARIANT InvClamp
CHECK_DEADLOCK FALSE
