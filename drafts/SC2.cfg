CONSTANTS NDesigns = 3
NWorkers = 2
Mode = "write-before-costs"
SPECIFICATION Spec
INVARIANT ReturnedAreDurable
INVARIANT RowsConsistent
CHECK_DEADLOCK FALSE
