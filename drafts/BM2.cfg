CONSTANTS MObj = 4
K = 2
SPECIFICATION Spec
INVARIANT SumIdentity1
INVARIANT NormIdentity2
INVARIANT ExactlyOne2
INVARIANT NonNeg
CHECK_DEADLOCK FALSE
