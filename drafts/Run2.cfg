CONSTANTS M = 2
Vals = {0,1,2}
Marks = {0,1}
N = 3
G = 4
SPECIFICATION Spec
INVARIANT Budget
INVARIANT Size
INVARIANT Elitism
INVARIANT Monotone
CHECK_DEADLOCK FALSE
