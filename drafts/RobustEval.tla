---- MODULE RobustEval ----
EXTENDS Integers, Sequences, FiniteSets, TLC
CONSTANTS NParams, UserM, MaxBatches, BatchSizes, ResetLists   \* ResetLists = FALSE is the named deviation "NoReset" (what the pinned tree does)
VARIABLES work,       \* evaluator.individuals: designs awaiting post-processing (sequence of design ids)
          costLen,    \* design -> length of its cost vector (0 = not evaluated)
          nChildren,  \* design -> number of neighbour designs attached
          processed,  \* design -> how many times a sensitivity was written for it
          calls,      \* total objective calls
          nb, nextd
vars == <<work, costLen, nChildren, processed, calls, nb, nextd>>
Designs == DOMAIN costLen
Init == work = <<>> /\ costLen = <<>> /\ nChildren = <<>> /\ processed = <<>> /\ calls = 0 /\ nb = 0 /\ nextd = 1
NCost == UserM + 1                                  \* evaluator.n: user objectives + the sensitivity objective
Ext(f, new, val) == [ d \in (DOMAIN f) \cup new |-> IF d \in new THEN val ELSE f[d] ]
\* Algorithm.evaluate(batch) with the worst-case evaluator
EvaluateBatch(k) ==
  /\ nb < MaxBatches
  /\ LET batch == nextd..(nextd + k - 1)
         w2    == work \o [ i \in 1..k |-> nextd + i - 1 ]                   \* add(): append to the work list
         todo  == { w2[i] : i \in DOMAIN w2 }                                 \* run(): every design on the work list gets a sensitivity
         len0  == Ext(costLen, batch, UserM)                                  \* base evaluation: one entry per user objective
         wr(d) == IF len0[d] > NCost THEN len0[d] ELSE len0[d] + 1            \* overwrite if already longer than n, else append
     IN /\ costLen'   = [ d \in DOMAIN len0 |-> IF d \in todo THEN wr(d) ELSE len0[d] ]
        /\ nChildren' = Ext(nChildren, batch, 2 * NParams)                    \* children rebuilt only for the new batch
        /\ processed' = [ d \in DOMAIN len0 |-> (IF d \in DOMAIN processed THEN processed[d] ELSE 0) + (IF d \in todo THEN 1 ELSE 0) ]
        /\ calls' = calls + k * (1 + 2 * NParams)                             \* old children are EVALUATED and skipped
        /\ work' = IF ResetLists THEN <<>> ELSE w2
        /\ nextd' = nextd + k
  /\ nb' = nb + 1
Next == \E k \in BatchSizes : EvaluateBatch(k)
Spec == Init /\ [][Next]_vars
\* ---- C14 ----
CostLen     == \A d \in Designs : costLen[d] = UserM + 1
ProcessedOnce == \A d \in Designs : processed[d] = 1
Children    == \A d \in Designs : nChildren[d] = 2 * NParams
CallBudget  == calls = (nextd - 1) * (1 + 2 * NParams)
====
