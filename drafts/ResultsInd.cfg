CONSTANTS MaxRec = 1
Tags = {0}
PVals = {0}
CVals = {0}
Dir <- DirMin
SPECIFICATION Spec
INVARIANT IndicatorLaws
CHECK_DEADLOCK FALSE
