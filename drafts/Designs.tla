---- MODULE Designs ----
\* Sampling (C12) and Factorial (C13): structural predicates over integer matrices (sequences of rows).
EXTENDS Integers, Sequences, FiniteSets, TLC, FiniteSetsExt, SequencesExt
Rows(D) == DOMAIN D
Cols(D) == IF D = <<>> THEN {} ELSE DOMAIN D[1]
Col(D, j) == [ i \in Rows(D) |-> D[i][j] ]
Rectangular(D, d) == \A i \in Rows(D) : DOMAIN D[i] = 1..d
\* ---- C12 ----
\* Latin hypercube: D[i][j] = stratum index of sample i in parameter j (floor((x-lb)/(ub-lb)*N), clipped to N-1)
Latin(D, d) == LET n == Len(D) IN
   /\ Rectangular(D, d)
   /\ \A j \in 1..d : { D[i][j] : i \in Rows(D) } = 0..(n - 1)          \* with n rows this is a permutation
\* radical inverse of i in base b as <<num, den>>
RECURSIVE RadInv(_, _, _, _)
RadInv(i, b, num, den) == IF i = 0 THEN <<num, den>> ELSE RadInv(i \div b, b, num * b + (i % b), den * b)
VdC(i, b) == RadInv(i, b, 0, 1)
Primes == <<2, 3, 5, 7, 11, 13, 17, 19, 23, 29, 31, 37>>
\* Halton: H[i][j] = <<num, den>> small rational of (x - lb)/(ub - lb) for the i-th point, j-th parameter
HaltonOK(H, d) == /\ Rectangular(H, d)
                  /\ \A i \in Rows(H), j \in 1..d : LET r == VdC(i, Primes[j]) IN H[i][j][1] * r[2] = r[1] * H[i][j][2]
\* uniform grid: L[i][j] = level index (0..k-1) of point i in parameter j
GridOK(L, d, k) == /\ Rectangular(L, d)
                   /\ Len(L) = k ^ d
                   /\ { L[i] : i \in Rows(L) } = [1..d -> 0..(k - 1)]
\* ---- C13 ----
FullSet(levels) == LET mx == Max({ levels[j] : j \in DOMAIN levels }) IN
   { f \in [1..Len(levels) -> 0..(mx - 1)] : \A j \in 1..Len(levels) : f[j] \in 0..(levels[j] - 1) }
FullFactOK(L, levels) ==                       \* levels: sequence of level counts
   /\ Rectangular(L, Len(levels))
   /\ { L[i] : i \in Rows(L) } = FullSet(levels)
   /\ Cardinality({ L[i] : i \in Rows(L) }) = Len(L)                       \* exactly once
RECURSIVE SumSeq(_, _)
SumSeq(f, S) == IF S = {} THEN 0 ELSE LET i == CHOOSE x \in S : TRUE IN f[i] + SumSeq(f, S \ {i})
Dot(D, a, b) == SumSeq([ i \in Rows(D) |-> D[i][a] * D[i][b] ], Rows(D))
PBOK(D, n) ==                                  \* D over {-1, +1}, n factors
   /\ Rectangular(D, n)
   /\ \A i \in Rows(D), j \in 1..n : D[i][j] \in {-1, 1}                   \* only the two bounds
   /\ Len(D) = 4 * ((n \div 4) + 1)                                        \* next multiple of four above n
   /\ \A j \in 1..n : SumSeq(Col(D, j), Rows(D)) = 0                       \* balanced
   /\ \A a, b \in 1..n : a # b => Dot(D, a, b) = 0                         \* mutually orthogonal
BBOK(D, n) ==                                  \* D over {-1, 0, +1}
   LET corners == { f \in [1..n -> {-1, 0, 1}] : Cardinality({ j \in 1..n : f[j] # 0 }) = 2 }
       centre  == [ j \in 1..n |-> 0 ]
       rows    == [ i \in Rows(D) |-> D[i] ]
   IN /\ Rectangular(D, n)
      /\ { D[i] : i \in Rows(D) } = corners \cup {centre}
      /\ Cardinality({ i \in Rows(D) : D[i] = centre }) = 1
      /\ Len(D) = Cardinality(corners) + 1                                  \* every corner exactly once
GSDOK(Ds, levels) ==                           \* Ds: sequence of complementary designs (each a sequence of level-index rows)
   LET Full == FullSet(levels)
       SetOf(D) == { D[i] : i \in Rows(D) }
   IN /\ \A k \in DOMAIN Ds : SetOf(Ds[k]) \subseteq Full /\ Cardinality(SetOf(Ds[k])) = Len(Ds[k])
      /\ \A a, b \in DOMAIN Ds : a # b => SetOf(Ds[a]) \cap SetOf(Ds[b]) = {}
      /\ UNION { SetOf(Ds[k]) : k \in DOMAIN Ds } = Full
\* ---- sanity on literal reference designs ----
PB3 == << <<-1,-1,1>>, <<1,-1,-1>>, <<-1,1,-1>>, <<1,1,1>> >>
BB3 == << <<-1,-1,0>>, <<1,-1,0>>, <<-1,1,0>>, <<1,1,0>>, <<-1,0,-1>>, <<1,0,-1>>, <<-1,0,1>>, <<1,0,1>>,
          <<0,-1,-1>>, <<0,1,-1>>, <<0,-1,1>>, <<0,1,1>>, <<0,0,0>> >>
GSD34 == << << <<0,0>>, <<0,2>>, <<2,0>>, <<2,2>>, <<1,1>>, <<1,3>> >>, << <<0,1>>, <<0,3>>, <<2,1>>, <<2,3>>, <<1,0>>, <<1,2>> >> >>
ASSUME PBOK(PB3, 3)
ASSUME BBOK(BB3, 3)
ASSUME GSDOK(GSD34, <<3, 4>>)
ASSUME ~PBOK(<< <<-1,-1,1>>, <<1,-1,-1>>, <<-1,1,-1>>, <<1,1,-1>> >>, 3)      \* unbalanced last column is rejected
ASSUME VdC(1, 2) = <<1, 2>> /\ VdC(2, 2) = <<1, 4>> /\ VdC(3, 2) = <<3, 4>> /\ VdC(5, 3) = <<7, 9>>
ASSUME Latin(<< <<1,0>>, <<0,2>>, <<2,1>> >>, 2) /\ ~Latin(<< <<1,0>>, <<1,2>>, <<2,1>> >>, 2)
ASSUME GridOK(<< <<0,0>>, <<0,1>>, <<1,0>>, <<1,1>> >>, 2, 2)
ASSUME FullFactOK(<< <<0,0>>, <<1,0>>, <<0,1>>, <<1,1>>, <<0,2>>, <<1,2>> >>, <<2, 3>>)
VARIABLE x
Init == x = 0
Next == UNCHANGED x
====
