---- MODULE Run ----
EXTENDS Dominance, TLC, FiniteSetsExt
CONSTANTS N, G, MaxFail
\* A design is identified by a key; costs are attached to keys when they are evaluated.
VARIABLES gen,        \* current generation tag (0 = nothing recorded yet)
          cur,        \* set of keys of the current population
          cost,       \* key -> Vec for evaluated designs (function with growing domain)
          recorded,   \* sequence of <<tag, set of keys>>
          evals,      \* successful objective evaluations
          fails,      \* transient failures injected so far
          nextk       \* fresh key counter
vars == <<gen, cur, cost, recorded, evals, fails, nextk>>
Dominators(S, k) == { j \in S : ParetoCmp(cost[j], cost[k]) = 1 }
RECURSIVE RankIn(_, _)
RankIn(S, k) == IF Dominators(S, k) = {} THEN 1 ELSE 1 + Max({ RankIn(S, j) : j \in Dominators(S, k) })
Init == gen = 0 /\ cur = {} /\ cost = <<>> /\ recorded = <<>> /\ evals = 0 /\ fails = 0 /\ nextk = 1
\* evaluate a fresh batch of N designs: costs are arbitrary; each design may fail transiently (re-roll = fresh key)
NewBatch(costs) == [ k \in nextk..(nextk + N - 1) |-> costs[k - nextk + 1] ]
FirstGen ==
  /\ gen = 0
  /\ \E costs \in [1..N -> Vec], f \in 0..MaxFail :
       /\ fails + f <= MaxFail /\ fails' = fails + f
       /\ cost' = NewBatch(costs)
       /\ cur' = nextk..(nextk + N - 1)
       /\ nextk' = nextk + N + f               \* failed vectors consumed keys too
       /\ evals' = evals + N
  /\ gen' = 1 /\ recorded' = Append(recorded, <<1, cur'>>)
\* one NSGA-II generation: N offspring with pairwise distinct new keys, merge with parents, rank, keep N
Step ==
  /\ gen >= 1 /\ gen < G
  /\ \E costs \in [1..N -> Vec] :
       LET off  == nextk..(nextk + N - 1)
           c2   == [ k \in (DOMAIN cost) \cup off |-> IF k \in off THEN costs[k - nextk + 1] ELSE cost[k] ]
           R    == cur \cup off
       IN /\ cost' = c2
          /\ \E S \in SUBSET R :
               /\ Cardinality(S) = N
               \* rank-respecting truncation (crowding only breaks ties inside the cut front)
               /\ LET Dm(k)   == { j \in R : ParetoCmp(c2[j], c2[k]) = 1 }
                      RECURSIVE Rk(_)
                      Rk(k)   == IF Dm(k) = {} THEN 1 ELSE 1 + Max({ Rk(j) : j \in Dm(k) })
                  IN \A s \in S, d \in R \ S : Rk(s) <= Rk(d)
               /\ cur' = S
          /\ nextk' = nextk + N /\ evals' = evals + N
  /\ gen' = gen + 1 /\ recorded' = Append(recorded, <<gen + 1, cur'>>) /\ UNCHANGED fails
Next == FirstGen \/ Step
Spec == Init /\ [][Next]_vars
\* ---- C09 ----
Budget   == evals = N * gen
Tags     == \A i \in DOMAIN recorded : recorded[i][1] = i /\ Cardinality(recorded[i][2]) = N
\* elitism as an action property: no survivor is dominated by a dropped member of the previous generation
Elitism  == [][ gen >= 1 => \A s \in cur', d \in cur \ cur' : ParetoCmp(cost'[d], cost'[s]) # 1 ]_vars
\* single objective (M = 1): best recorded cost never gets worse
Best(S, c) == Min({ c[k].c[1] : k \in S })
Monotone == [][ (gen >= 1 /\ M = 1) => Best(cur', cost') <= Best(cur, cost) ]_vars
====
