---- MODULE Run2 ----
EXTENDS Dominance, TLC, FiniteSetsExt, Bags
CONSTANTS N, G
\* Populations are bags of cost vectors (design identity matters only for de-duplication, modelled in Selection);
\* this lets TLC merge all histories that lead to the same population.
VARIABLES gen, pop, evals, viol, worse
vars == <<gen, pop, evals, viol, worse>>
ToBag(f) == LET D == DOMAIN f IN [ v \in { f[i] : i \in D } |-> Cardinality({ i \in D : f[i] = v }) ]
Init == gen = 0 /\ pop = EmptyBag /\ evals = 0 /\ viol = FALSE /\ worse = FALSE
FirstGen == /\ gen = 0
            /\ \E costs \in [1..N -> Vec] : pop' = ToBag(costs)
            /\ gen' = 1 /\ evals' = evals + N /\ UNCHANGED <<viol, worse>>
\* any indexing of the current bag as parents 1..N (bags are small: enumerate sequences with that bag)
Parents == { p \in [1..N -> BagToSet(pop)] : ToBag(p) = pop }
Step ==
  /\ gen >= 1 /\ gen < G
  /\ \E par \in {CHOOSE p \in Parents : TRUE}, off \in [1..N -> Vec] :
       LET R(i)  == IF i <= N THEN par[i] ELSE off[i - N]          \* merged list, parents first
           I     == 1..(2 * N)
           Dm(i) == { j \in I : ParetoCmp(R(j), R(i)) = 1 }
           RECURSIVE Rk(_)
           Rk(i) == IF Dm(i) = {} THEN 1 ELSE 1 + Max({ Rk(j) : j \in Dm(i) })
       IN \E S \in SUBSET I :
            /\ Cardinality(S) = N
            /\ \A s \in S, d \in I \ S : Rk(s) <= Rk(d)              \* rank first; crowding breaks ties only
            /\ pop' = ToBag([ i \in S |-> R(i) ])
            /\ viol' = (viol \/ \E s \in S, d \in (1..N) \ S : ParetoCmp(R(d), R(s)) = 1)
            /\ worse' = (worse \/ (M = 1 /\ Min({ R(s).c[1] : s \in S }) > Min({ par[i].c[1] : i \in 1..N })))
  /\ gen' = gen + 1 /\ evals' = evals + N
Next == FirstGen \/ Step
Spec == Init /\ [][Next]_vars
Budget   == evals = N * gen
Size     == gen >= 1 => BagCardinality(pop) = N
Elitism  == ~viol
Monotone == ~worse
====
