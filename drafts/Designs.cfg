INIT Init
NEXT Next
