---- MODULE StoreCrash ----
EXTENDS Integers, Sequences, FiniteSets, TLC
CONSTANTS NDesigns, NWorkers, Mode     \* Mode \in {"per-individual", "batched-commit", "write-before-costs"} (the last two are named deviations)
Designs == 1..NDesigns
Workers == 1..NWorkers
None == 0
VARIABLES pend, wpc, wd, costs,      \* volatile: costs[d] = vector id the costs were computed from (0 = none yet)
          txn, lock, durable,        \* sqlite: per-connection uncommitted rows, exclusive lock, committed rows d -> <<vec, costs>>
          returned,                  \* set of designs whose sync_individual has returned (observable by the caller)
          crashed
vars == <<pend, wpc, wd, costs, txn, lock, durable, returned, crashed>>
Init == /\ pend = Designs /\ wpc = [w \in Workers |-> "idle"] /\ wd = [w \in Workers |-> None]
        /\ costs = [d \in Designs |-> 0] /\ txn = [w \in Workers |-> <<>>] /\ lock = None
        /\ durable = [d \in Designs |-> <<>>] /\ returned = {} /\ crashed = FALSE
Alive == ~crashed
Take(w) == /\ Alive /\ wpc[w] = "idle" /\ pend # {}
           /\ \E d \in pend : wd' = [wd EXCEPT ![w] = d] /\ pend' = pend \ {d}
           /\ wpc' = [wpc EXCEPT ![w] = IF Mode = "write-before-costs" THEN "sync" ELSE "call"]
           /\ UNCHANGED <<costs, txn, lock, durable, returned, crashed>>
ObjReturn(w) == /\ Alive /\ wpc[w] = "call"
                /\ costs' = [costs EXCEPT ![wd[w]] = wd[w]]          \* costs computed from the design's own vector
                /\ wpc' = [wpc EXCEPT ![w] = IF Mode = "write-before-costs" THEN "idle" ELSE "sync"]
                /\ UNCHANGED <<pend, wd, txn, lock, durable, returned, crashed>>
Exec(w) == /\ Alive /\ wpc[w] = "sync" /\ lock \in {None, w}
           /\ lock' = w
           /\ txn' = [txn EXCEPT ![w] = Append(@, <<wd[w], wd[w], costs[wd[w]]>>)]   \* <<id, vector, costs-from>>
           /\ wpc' = [wpc EXCEPT ![w] = "commit"]
           /\ UNCHANGED <<pend, wd, costs, durable, returned, crashed>>
Apply(rows, t) == [d \in Designs |-> IF \E i \in DOMAIN t : t[i][1] = d
                                     THEN LET i == CHOOSE j \in DOMAIN t : t[j][1] = d /\ \A k \in DOMAIN t : t[k][1] = d => k <= j
                                          IN <<t[i][2], t[i][3]>>
                                     ELSE rows[d]]
Commit(w) == /\ Alive /\ wpc[w] = "commit"
             /\ IF Mode = "batched-commit" /\ pend # {}
                THEN UNCHANGED <<durable, txn, lock>>                                 \* deviation: commit postponed
                ELSE durable' = Apply(durable, txn[w]) /\ txn' = [txn EXCEPT ![w] = <<>>] /\ lock' = None
             /\ returned' = returned \cup {wd[w]}
             /\ wpc' = [wpc EXCEPT ![w] = IF Mode = "write-before-costs" THEN "call" ELSE "idle"]
             /\ UNCHANGED <<pend, wd, costs, crashed>>
Crash == /\ Alive /\ crashed' = TRUE
         /\ txn' = [w \in Workers |-> <<>>] /\ lock' = None                           \* rollback of uncommitted transactions
         /\ UNCHANGED <<pend, wpc, wd, costs, durable, returned>>
Next == Crash \/ \E w \in Workers : Take(w) \/ ObjReturn(w) \/ Exec(w) \/ Commit(w)
Spec == Init /\ [][Next]_vars
\* ---- C11: what a read-mode view sees after the crash ----
ReturnedAreDurable == crashed => \A d \in returned : durable[d] # <<>>
RowsConsistent     == crashed => \A d \in Designs : durable[d] # <<>> => durable[d][2] = durable[d][1]   \* costs belong to the row's vector
====
