---------------------------- MODULE ProblemRuns ----------------------------
(* Extension beyond the listed properties (DESIGN.md section 11): several algorithm runs on ONE problem object, and the population
   queries of Problem (populations(), population(g), last_population()) that Results and the user read afterwards.
   problem.individuals is an append-only list of designs tagged [pop, alg]: pop = the generation counter of the run that made it
   (every run starts again at its first tag), alg = the run's algorithm id.
     StartRun          a new algorithm object is run on the problem: fresh algorithm id, generation counter back to First
     Generation(n)     the run records n designs tagged with its current generation and moves on to the next
     EndRun
   Two things the first validation run taught the model:
     - a sweep does not tag generations at all: its designs keep the constructor's population id -1        (named: SweepIsUntagged;
       a "flat" run), so they are never anybody's last population unless nothing else has been run;
     - NSGA-II records the copies of the elite it carries into the next generation as designs of their own, in state EMPTY, with copied
       costs and WITHOUT an algorithm id (0)                                                           (named: CarriedCopiesUntagged);
     - EpsMOEA evaluates through its evaluator directly, so NONE of its designs gets an algorithm id         (named: AnonymousRun).
   The queries are functions of the tags alone -- they do not look at the algorithm id.  So                (named: GenerationsMergeAcrossRuns)
   population(g) after two runs holds generation g of BOTH runs, and last_population() is the highest tag of ANY run: the last
   generation of the longer run, or of both when they are equally long.  LastIsOfLatestRun states what a reader would expect; TLC
   must refute it (x06 checks that it does).                                                                                      *)
EXTENDS Integers, Sequences, FiniteSets, SequencesExt
CONSTANTS MaxRuns, MaxGen, MaxPer
VARIABLES inds, nruns, cur
vars == <<inds, nruns, cur>>
Idle == [alg |-> 0, gen |-> 0, flat |-> FALSE, anon |-> FALSE]
Init == inds = <<>> /\ nruns = 0 /\ cur = Idle
StartRun(flat, anon) == /\ cur = Idle /\ nruns < MaxRuns
                        /\ nruns' = nruns + 1 /\ cur' = [alg |-> nruns + 1, gen |-> 0, flat |-> flat, anon |-> anon] /\ UNCHANGED inds
\* n designs of the run itself and c carried-over copies without an algorithm id, all tagged with the current generation (-1 in a flat run)
Generation(n, c) == /\ cur # Idle /\ cur.gen <= MaxGen /\ (cur.flat => c = 0 /\ cur.gen = 0)
                    /\ LET tag == IF cur.flat THEN -1 ELSE cur.gen
                       IN inds' = inds \o [i \in 1..(n + c) |-> [pop |-> tag, alg |-> IF i <= n /\ ~cur.anon THEN cur.alg ELSE 0]]
                    /\ cur' = [cur EXCEPT !.gen = @ + 1] /\ UNCHANGED nruns
EndRun == cur # Idle /\ cur.gen >= 1 /\ cur' = Idle /\ UNCHANGED <<inds, nruns>>
Next == (\E f, a \in BOOLEAN : StartRun(f, a)) \/ EndRun \/ \E n \in 1..MaxPer, c \in 0..1 : Generation(n, c)
Spec == Init /\ [][Next]_vars
\* ---- the queries (Problem.populations / population / last_population) as functions of a tagged list ----
Tags(s) == { s[i].pop : i \in DOMAIN s }
PopulationOf(s, g) == SelectSeq(s, LAMBDA x : x.pop = g)
MaxTag(s) == IF s = <<>> THEN -1 ELSE CHOOSE m \in Tags(s) : \A t \in Tags(s) : t <= m
LastPopulationOf(s) == PopulationOf(s, MaxTag(s))
\* ---- laws ----
AppendOnly == [][IsPrefix(inds, inds')]_vars                                     \* a later run never touches what an earlier run recorded
RECURSIVE SumSizes(_, _)
SumSizes(s, T) == IF T = {} THEN 0 ELSE LET t == CHOOSE x \in T : TRUE IN Len(PopulationOf(s, t)) + SumSizes(s, T \ {t})
Partition == SumSizes(inds, Tags(inds)) = Len(inds)                               \* populations() partitions the recorded designs
LastNonEmpty == inds # <<>> => LastPopulationOf(inds) # <<>>
OwnTagsContiguous == \A r \in 1..nruns : LET own == { inds[i].pop : i \in { j \in DOMAIN inds : inds[j].alg = r } }
                                         IN \/ own = {-1}                                 \* a flat run, or
                                            \/ \A t \in own : \A u \in 0..t : u \in own   \* a run that leaves no hole in its own generations
\* expected by a reader, REFUTED: after the latest run has ended, last_population() holds designs of that run only
LastIsOfLatestRun == (cur = Idle /\ nruns >= 1) => \A i \in DOMAIN LastPopulationOf(inds) : LastPopulationOf(inds)[i].alg \in {nruns, 0}
=============================================================================
