--------------------------- MODULE StoreSessionsTrace ---------------------------
(* Validates recorded multi-session histories of real SqliteDataStore objects on one file against StoreSessions (IdPolicy = "count"):
   after every operation the id counter, the rows of the file (id -> origin) and, at Open, the loaded individuals and the source of
   the problem's definitions must equal the model's next state.                                                          *)
EXTENDS StoreSessions, Json, IOUtils
Traces == JsonDeserialize(IOEnv.TRACE_FILE)
VARIABLES tid, l
Ev == Traces[tid][l]
\* diagnostic mode (ALLCLAUSES = "1", trace-mutation self-test only): a failing clause is reported and evaluation goes on, so that clauses
\* shadowed by an earlier one in the same conjunction are exercised too; in every registered check ALLCLAUSES = "0"
Clause(name, b) == IF b THEN TRUE ELSE PrintT(<<"FAIL", tid, l, name>>) /\ (IOEnv.ALLCLAUSES = "1")
Act(e) == CASE e.op = "open"  -> Open(e.m)
            [] e.op = "new"   -> New
            [] e.op = "temp"  -> Temp
            [] e.op = "sync"  -> Sync(e.i)
            [] e.op = "mutate" -> Mutate(e.i)
            [] e.op = "close" -> Close
Rows(f) == { <<i, f[i].s, f[i].n, f[i].v>> : i \in DOMAIN f }
SeqSet(s) == { s[k] : k \in DOMAIN s }
OpEv(e) ==
    /\ Clause("no-exception", e.exc = "")
    /\ Clause("known-operation", e.op \in {"open", "new", "temp", "sync", "mutate", "close"})
    /\ Clause("operation-enabled-in-the-model", ENABLED Act(e))
    /\ Act(e)
    /\ Clause("id-counter", e.counter = counter')
    /\ Clause("file-rows", SeqSet(e.rows) = Rows(file'))
    /\ Clause("no-duplicate-rows", Len(e.rows) = Cardinality(SeqSet(e.rows)))
    /\ (e.op = "open") => /\ Clause("loaded-individuals", SeqSet(e.loaded) = Rows(live'))
                          /\ Clause("definitions-source", e.probdef = probdef')
    /\ (e.op = "new") => Clause("new-id", e.id + 1 = counter')
TInit == tid \in 1..Len(Traces) /\ l = 1 /\ Init
TNext == /\ l <= Len(Traces[tid])
         /\ OpEv(Ev)
         /\ l' = l + 1 /\ UNCHANGED tid
TDone == l = Len(Traces[tid]) + 1
TReport == TDone => PrintT(<<"ACCEPT", tid>>)
=============================================================================
