-------------------------------- MODULE Swarm --------------------------------
(* C18 -- one particle of a swarm (one coordinate) and the leader archive, at the grain of the public update methods:
     SetVelocity(v)   update_velocity: the raw velocity v is clamped to +/- half the parameter range (speed_constriction)
     Move             update_position: add the velocity; a coordinate that would leave the box is put onto the violated bound
                      and that velocity component is reversed (kind "reverse": OMOPSO, PSOGA) or damped by 1/1000 ("damp": SMPSO)
     Evaluate         the objective yields any cost vector
     UpdateBest       update_particle_best: the personal best is replaced unless the old best dominates the new position
     UpdateLeaders    update_global_best: archive-add of the particle, then truncation to N by crowding distance (any N members)
   Integers only: velocities are rationals <<num, den>> so that the 1/1000 damping is exact; Clamp works on doubled values.   *)
EXTENDS DominanceOps, TLC
CONSTANTS Lb, Ub, PosRange, VelRange, Kinds, M, Vals, Marks, N, MaxGen
Vec == [c : [1..M -> Vals], m : Marks]
PosDef == -3..7
VelDef == -9..9
Range2 == Ub - Lb                                   \* twice the half range
Clamp(v) == IF 2 * v > Range2 THEN <<Range2, 2>> ELSE IF 2 * v < -Range2 THEN <<-Range2, 2>> ELSE <<v, 1>>
Factor(kind) == IF kind = "reverse" THEN <<-1, 1>> ELSE <<1, 1000>>
\* position update of one coordinate exactly as coded: add, test the upper bound, then test the lower bound (integral velocity v)
MoveOp(kind, p, v) ==
  LET x  == p + v
      f  == Factor(kind)
      x1 == IF x > Ub THEN Ub ELSE x
      v1 == IF x > Ub THEN <<v * f[1], f[2]>> ELSE <<v, 1>>
      x2 == IF x1 < Lb THEN Lb ELSE x1
      v2 == IF x1 < Lb THEN <<v1[1] * f[1], v1[2] * f[2]>> ELSE v1
  IN [pos |-> x2, vel |-> v2]
\* the property's postcondition for a move
MoveOK(kind, p, v, r) ==
  LET x == p + v
      f == Factor(kind)
  IN /\ r.pos >= Lb /\ r.pos <= Ub
     /\ (x > Ub => (r.pos = Ub /\ r.vel[1] * f[2] = v * f[1] * r.vel[2]))
     /\ (x < Lb => (r.pos = Lb /\ r.vel[1] * f[2] = v * f[1] * r.vel[2]))
     /\ ((x >= Lb /\ x <= Ub) => (r.pos = x /\ r.vel[1] = v * r.vel[2]))
BestOp(new, old) == IF ParetoCmp(new, old) # 2 THEN new ELSE old
VARIABLES kind, pos, vel, best, cur, leaders, phase, gen
vars == <<kind, pos, vel, best, cur, leaders, phase, gen>>
Init == /\ kind \in Kinds /\ pos \in PosRange /\ vel = <<0, 1>> /\ best \in Vec /\ cur = best
        /\ leaders = {best} /\ phase = "velocity" /\ gen = 0
SetVelocity(v) == /\ phase = "velocity" /\ gen < MaxGen /\ vel' = Clamp(v) /\ phase' = "move"
                  /\ UNCHANGED <<kind, pos, best, cur, leaders, gen>>
\* update_position is public: it must be right for ANY integral velocity, not only clamped ones
Move(v) == /\ phase = "move"
           /\ LET r == MoveOp(kind, pos, v) IN pos' = r.pos /\ vel' = r.vel
           /\ phase' = "evaluate" /\ UNCHANGED <<kind, best, cur, leaders, gen>>
Evaluate(c) == /\ phase = "evaluate" /\ cur' = c /\ phase' = "best" /\ UNCHANGED <<kind, pos, vel, best, leaders, gen>>
UpdateBest == /\ phase = "best" /\ best' = BestOp(cur, best) /\ phase' = "leaders"
              /\ UNCHANGED <<kind, pos, vel, cur, leaders, gen>>
UpdateLeaders == /\ phase = "leaders"
                 /\ LET nd == NonDominated(leaders \cup {cur}) IN
                    \E S \in SUBSET nd : /\ Cardinality(S) = (IF Cardinality(nd) < N THEN Cardinality(nd) ELSE N)
                                         /\ leaders' = S
                 /\ phase' = "velocity" /\ gen' = gen + 1 /\ UNCHANGED <<kind, pos, vel, best, cur>>
Next == (\E v \in VelRange : SetVelocity(v) \/ Move(v)) \/ (\E c \in Vec : Evaluate(c)) \/ UpdateBest \/ UpdateLeaders
Spec == Init /\ [][Next]_vars
\* ---- C18 ----
InBoxAfterMove  == phase \in {"evaluate", "best", "leaders"} => (pos >= Lb /\ pos <= Ub)
ClampedVelocity == phase = "move" => (2 * vel[1] <= Range2 * vel[2] /\ 2 * vel[1] >= -Range2 * vel[2])
MoveTable       == \A p \in PosRange, v \in VelRange, k \in Kinds : MoveOK(k, p, v, MoveOp(k, p, v))
ClampTable      == \A v \in VelRange : LET c == Clamp(v) IN 2 * c[1] <= Range2 * c[2] /\ 2 * c[1] >= -Range2 * c[2]
                                                         /\ ((2 * v <= Range2 /\ 2 * v >= -Range2) => c = <<v, 1>>)
BestTable       == \A a, b \in Vec : /\ (Dominates(b, a) => BestOp(a, b) = b)      \* never replaced by a position it dominates
                                     /\ (~Dominates(b, a) => BestOp(a, b) = a)      \* otherwise always replaced
BestNeverRegresses == [][ best' # best => ~Dominates(best, best') ]_vars
LeadersBounded  == Cardinality(leaders) <= N /\ MutuallyND(leaders) /\ leaders # {}
ASSUME MoveTable /\ ClampTable /\ BestTable
=============================================================================
