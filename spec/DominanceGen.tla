---------------------------- MODULE DominanceGen ----------------------------
EXTENDS DominanceOps, TLC, Json, IOUtils, SequencesExt
CONSTANTS M, Vals, Marks
Vec == [c : [1..M -> Vals], m : Marks]
ASSUME JsonSerialize(IOEnv.OUT, SetToSeq(Vec))
VARIABLE x
Init == x = 0
Next == UNCHANGED x
=============================================================================
