--------------------------- MODULE IdentityGen ---------------------------
(* Case generator for C20: (1) the complete table of point pairs for the configured dimension,
   (2) behaviours of the Identity state machine (exhaustive or -simulate), printed as JSON.                 *)
EXTENDS Identity, Json, IOUtils, SequencesExt
VARIABLE hist
GInit == Init /\ hist = <<>>
GNext == /\ nops < MaxOps /\ nops' = nops + 1
         /\ \/ \E p \in Point : \/ Offer(p)   /\ hist' = Append(hist, [op |-> "offer",  p |-> p])
                                \/ AppendP(p) /\ hist' = Append(hist, [op |-> "append", p |-> p])
                                \/ Remove(p)  /\ hist' = Append(hist, [op |-> "remove", p |-> p])
            \/ Dedupe /\ hist' = Append(hist, [op |-> "dedupe", p |-> <<>>])
Emit == (nops = MaxOps) => PrintT(<<"BEH", ToJson(hist)>>)
PairTable == SetToSeq({ <<a, b>> : a \in Point, b \in Point })
ASSUME IOEnv.OUT = "" \/ JsonSerialize(IOEnv.OUT, PairTable)
=============================================================================
