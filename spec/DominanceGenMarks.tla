---- MODULE DominanceGenMarks ----
EXTENDS DominanceGen
MarksDef == {0, 1, -1, 2}
====
