---------------------------- MODULE ArchiveTrace ----------------------------
(* Validates recorded histories of a real artap Archive (either comparator).  State: the vectors offered since the last
   truncation and the specification-level non-dominated set, maintained with the same NDInsert the design model uses. *)
EXTENDS DominanceOps, TLC, Json, IOUtils
Traces == JsonDeserialize(IOEnv.TRACE_FILE)
VARIABLES tid, l, nd, offered
Ev == Traces[tid][l]
\* diagnostic mode (ALLCLAUSES = "1", trace-mutation self-test only): a failing clause is reported and evaluation goes on, so that clauses
\* shadowed by an earlier one in the same conjunction are exercised too; in every registered check ALLCLAUSES = "0"
Clause(name, b) == IF b THEN TRUE ELSE PrintT(<<"FAIL", tid, l, name>>) /\ (IOEnv.ALLCLAUSES = "1")
SeqRange(s) == { s[i] : i \in DOMAIN s }
NDInsert(S, x) == IF \E y \in S : Dominates(y, x) \/ y = x THEN S
                  ELSE { y \in S : ~Dominates(x, y) } \cup {x}
TruncOK(before, after, size) ==
    LET Count(s, v) == Cardinality({ i \in DOMAIN s : s[i] = v })
        vals == SeqRange(before) \cup SeqRange(after)
    IN /\ Len(after) = (IF size < Len(before) THEN size ELSE Len(before))
       /\ \A v \in vals : Count(after, v) <= Count(before, v)
       /\ \A v \in vals, w \in vals : (Count(after, v) < Count(before, v) /\ Count(after, w) > 0) => w >= v
\* Two solutions the comparators cannot tell apart: identical objective vectors and markers of equal rank (equal, or equal magnitude
\* with opposite sign).  The Pareto archive keeps both unless they are the same signed-cost vector; the epsilon comparator "always names
\* a loser for identical vectors" (C01) -- either one -- so an epsilon archive holds one representative of the pair, whichever.
TieSet(S, x) == { y \in S : y.c = x.c /\ MarkCmp(y, x) = 0 /\ y # x }
Allowed(S, x, comp) ==
    IF (\E y \in S : Dominates(y, x) \/ y = x) \/ TieSet(S, x) = {} \/ comp # "eps" THEN { NDInsert(S, x) }
    ELSE { S, (S \ TieSet(S, x)) \cup {x} }
AddEv(e) ==
    LET allowed == Allowed(nd, e.x, e.comp)
        nd2 == IF SeqRange(e.after) \in allowed THEN SeqRange(e.after) ELSE NDInsert(nd, e.x) IN
    /\ Clause("no-exception", e.exc = "")
    /\ Clause("content-is-nondominated-set", SeqRange(e.after) \in allowed)
    /\ Clause("one-representative-each", Cardinality(SeqRange(e.after)) = Len(e.after))
    /\ Clause("result-iff-inserted", e.res = e.inserted)
    /\ Clause("inserted-is-member", e.inserted => e.x \in SeqRange(e.after))
    /\ Clause("new-nondominated-is-accepted", (e.x \notin offered /\ e.x \in nd2) => e.inserted)
    /\ Clause("dominated-is-refused", (e.x \notin nd2) => ~e.inserted)
    /\ Clause("mutually-nondominated", MutuallyND(SeqRange(e.after)))
    /\ nd' = nd2 /\ offered' = offered \cup {e.x}
TruncEv(e) ==
    /\ Clause("no-exception", e.exc = "")
    /\ Clause("truncate-keeps-largest", TruncOK(e.before, e.after, e.size))
    /\ Clause("truncate-members", SeqRange(e.members) \subseteq nd /\ Cardinality(SeqRange(e.members)) = Len(e.members))
    /\ nd' = SeqRange(e.members) /\ offered' = SeqRange(e.members)
TInit == tid \in 1..Len(Traces) /\ l = 1 /\ nd = {} /\ offered = {}
TNext == /\ l <= Len(Traces[tid])
         /\ CASE Ev.ev = "add"   -> AddEv(Ev)
              [] Ev.ev = "trunc" -> TruncEv(Ev)
              [] OTHER -> Clause("known-event", FALSE) /\ UNCHANGED <<nd, offered>>
         /\ l' = l + 1 /\ UNCHANGED tid
TDone == l = Len(Traces[tid]) + 1
TReport == TDone => PrintT(<<"ACCEPT", tid>>)
=============================================================================
