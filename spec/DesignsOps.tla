----------------------------- MODULE DesignsOps -----------------------------
(* C12 / C13 -- structural predicates over integer matrices (sequences of rows) obtained by projecting generated designs:
   stratum indices (Latin hypercube), numerators / denominators (Halton), level indices (grids, factorial designs),
   -1 / 0 / +1 codes (Plackett-Burman, Box-Behnken).                                                         *)
EXTENDS Integers, Sequences, FiniteSets, FiniteSetsExt
Rows(D) == DOMAIN D
Rectangular(D, d) == \A i \in Rows(D) : DOMAIN D[i] = 1..d
RowSet(D) == { D[i] : i \in Rows(D) }
NoDuplicateRows(D) == Cardinality(RowSet(D)) = Len(D)
\* ---------------------------------------------------------------- C12
\* Latin hypercube of N samples: every column of stratum indices is a permutation of 0..N-1
Latin(D, d) == /\ Rectangular(D, d)
               /\ \A j \in 1..d : { D[i][j] : i \in Rows(D) } = 0..(Len(D) - 1)
\* radical inverse of i in base b as <<num, den>> (digit reversal)
RECURSIVE RadInv(_, _, _, _)
RadInv(i, b, num, den) == IF i = 0 THEN <<num, den>> ELSE RadInv(i \div b, b, num * b + (i % b), den * b)
VdC(i, b) == RadInv(i, b, 0, 1)
IsPrime(p) == p >= 2 /\ \A q \in 2..(p - 1) : p % q # 0
RECURSIVE NthPrimeFrom(_, _)
NthPrimeFrom(n, c) == IF IsPrime(c) THEN (IF n = 1 THEN c ELSE NthPrimeFrom(n - 1, c + 1)) ELSE NthPrimeFrom(n, c + 1)
NthPrime(n) == NthPrimeFrom(n, 2)
\* Halton: H[i][j] = <<num, den>> of (x - lb)/(ub - lb) for the i-th point and the j-th parameter
HaltonOK(H, d) == /\ Rectangular(H, d)
                  /\ \A i \in Rows(H), j \in 1..d : LET r == VdC(i, NthPrime(j)) IN H[i][j][1] * r[2] = r[1] * H[i][j][2]
\* uniform grid of k levels per parameter: L[i][j] = level index 0..k-1 (level 0 is the lower, k-1 the upper bound)
RECURSIVE Pow(_, _)
Pow(k, d) == IF d = 0 THEN 1 ELSE k * Pow(k, d - 1)
GridOK(L, d, k) == /\ Rectangular(L, d)
                   /\ Len(L) = Pow(k, d)
                   /\ NoDuplicateRows(L)
                   /\ \A i \in Rows(L), j \in 1..d : L[i][j] \in 0..(k - 1)      \* with k^d distinct rows: the full product
\* ---------------------------------------------------------------- C13
RECURSIVE ProdLevels(_, _)
ProdLevels(levels, j) == IF j > Len(levels) THEN 1 ELSE levels[j] * ProdLevels(levels, j + 1)
\* every combination of the given levels exactly once  (count + no duplicates + in range  <=>  equals the full product)
FullFactOK(L, levels) ==
   /\ Rectangular(L, Len(levels))
   /\ Len(L) = ProdLevels(levels, 1)
   /\ NoDuplicateRows(L)
   /\ \A i \in Rows(L), j \in 1..Len(levels) : L[i][j] \in 0..(levels[j] - 1)
\* a level list may name a value more than once ([0, 0.5, 0.5, 1]): the combinations are those of the POSITIONS.  first[j][p] is the first
\* position (0-based) of factor j that holds the same value as position p; rows are given by first positions.  Every row made of first
\* positions occurs as often as the product of the multiplicities of its entries; with the total count that is the whole product again.
Mult(f, c) == Cardinality({ q \in 1..Len(f) : f[q] = c })
RECURSIVE ProdMult(_, _, _)
ProdMult(first, row, j) == IF j > Len(first) THEN 1 ELSE Mult(first[j], row[j]) * ProdMult(first, row, j + 1)
FullFactBagOK(L, levels, first) ==
   /\ Rectangular(L, Len(levels))
   /\ Len(L) = ProdLevels(levels, 1)
   /\ \A i \in Rows(L), j \in 1..Len(levels) : L[i][j] \in 0..(levels[j] - 1) /\ first[j][L[i][j] + 1] = L[i][j]
   /\ \A i \in Rows(L) : Cardinality({ k \in Rows(L) : L[k] = L[i] }) = ProdMult(first, L[i], 1)
RECURSIVE SumUpTo(_, _, _)
SumUpTo(D, f, i) == IF i > Len(D) THEN 0 ELSE f[i] + SumUpTo(D, f, i + 1)
ColSum(D, a) == SumUpTo(D, [ i \in Rows(D) |-> D[i][a] ], 1)
Dot(D, a, b) == SumUpTo(D, [ i \in Rows(D) |-> D[i][a] * D[i][b] ], 1)
\* Plackett-Burman for n factors: two levels, next multiple of four runs, balanced, mutually orthogonal columns
PBOK(D, n) ==
   /\ Rectangular(D, n)
   /\ \A i \in Rows(D), j \in 1..n : D[i][j] \in {-1, 1}
   /\ Len(D) = 4 * ((n \div 4) + 1)
   /\ \A j \in 1..n : ColSum(D, j) = 0
   /\ \A a, b \in 1..n : a < b => Dot(D, a, b) = 0
\* Box-Behnken for n >= 3: every +/- corner of every factor pair with the others at mid-level, plus one centre run
NonZero(r) == { j \in DOMAIN r : r[j] # 0 }
BBOK(D, n) ==
   /\ Rectangular(D, n)
   /\ \A i \in Rows(D), j \in 1..n : D[i][j] \in {-1, 0, 1}
   /\ \A i \in Rows(D) : Cardinality(NonZero(D[i])) \in {0, 2}
   /\ Cardinality({ i \in Rows(D) : NonZero(D[i]) = {} }) = 1                                  \* one centre run
   /\ \A a, b \in 1..n : a < b => \A sa, sb \in {-1, 1} :
          Cardinality({ i \in Rows(D) : NonZero(D[i]) = {a, b} /\ D[i][a] = sa /\ D[i][b] = sb }) = 1
   /\ Len(D) = 2 * n * (n - 1) + 1
\* generalized subset designs: r complementary designs over the level counts
InRange(r, levels) == DOMAIN r = 1..Len(levels) /\ \A j \in 1..Len(levels) : r[j] \in 0..(levels[j] - 1)
RECURSIVE SumLens(_, _)
SumLens(Ds, k) == IF k > Len(Ds) THEN 0 ELSE Len(Ds[k]) + SumLens(Ds, k + 1)
GSDOK(Ds, levels, complete) ==
   /\ \A k \in DOMAIN Ds : NoDuplicateRows(Ds[k]) /\ \A i \in Rows(Ds[k]) : InRange(Ds[k][i], levels)   \* duplicate-free subsets
   /\ \A a, b \in DOMAIN Ds : a < b => RowSet(Ds[a]) \cap RowSet(Ds[b]) = {}                              \* pairwise disjoint
   /\ complete => SumLens(Ds, 1) = ProdLevels(levels, 1)                                                  \* together: the whole factorial
=============================================================================
