--------------------------- MODULE StoreSessionsGen ---------------------------
(* Behaviours of StoreSessions as scripts for real SqliteDataStore sessions. *)
EXTENDS StoreSessions, Json
VARIABLE hist
Op(op, m, i) == [op |-> op, m |-> m, i |-> i]
GInit == Init /\ hist = <<>>
GNext == \/ \E m \in Modes : Open(m) /\ hist' = Append(hist, Op("open", m, 0))
         \/ New /\ hist' = Append(hist, Op("new", "", 0))
         \/ Temp /\ hist' = Append(hist, Op("temp", "", 0))
         \/ \E i \in 0..(2 * MaxOps) : Sync(i) /\ hist' = Append(hist, Op("sync", "", i))
         \/ \E i \in 0..(2 * MaxOps) : Mutate(i) /\ hist' = Append(hist, Op("mutate", "", i))
         \/ Close /\ hist' = Append(hist, Op("close", "", 0))
Emit == (nops = MaxOps) => PrintT(<<"BEH", ToJson(hist)>>)
=============================================================================
