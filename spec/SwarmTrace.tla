------------------------------ MODULE SwarmTrace ------------------------------
(* Validates observations of the public swarm update methods (OMOPSO, SMPSO, PSOGA) against the operators of Swarm.tla.
   move(kind, lb, ub, pos, vel, pos2, vel2[num, den])   constrict(v, lb, ub, res2)   velocity(absv, half)
   best(new, old, replaced, vector_follows)   leaders(n, members[{c, m}])                                          *)
EXTENDS DominanceOps, TLC, Json, IOUtils
Traces == JsonDeserialize(IOEnv.TRACE_FILE)
VARIABLES tid, l
Ev == Traces[tid][l]
\* diagnostic mode (ALLCLAUSES = "1", trace-mutation self-test only): a failing clause is reported and evaluation goes on, so that clauses
\* shadowed by an earlier one in the same conjunction are exercised too; in every registered check ALLCLAUSES = "0"
Clause(name, b) == IF b THEN TRUE ELSE PrintT(<<"FAIL", tid, l, name>>) /\ (IOEnv.ALLCLAUSES = "1")
Factor(kind) == IF kind = "reverse" THEN <<-1, 1>> ELSE <<1, 1000>>
MoveEv(e) ==
    LET x == e.pos + e.vel
        f == Factor(e.kind)
    IN /\ Clause("no-exception", e.exc = "")
       /\ Clause("position-inside-box", e.pos2 >= e.lb /\ e.pos2 <= e.ub)
       /\ Clause("upper-violation-put-on-upper-bound", x > e.ub => e.pos2 = e.ub)
       /\ Clause("lower-violation-put-on-lower-bound", x < e.lb => e.pos2 = e.lb)
       /\ Clause("velocity-reversed-or-damped-at-the-bound",
                 (x > e.ub \/ x < e.lb) => e.vel2[1] * f[2] = e.vel * f[1] * e.vel2[2])
       /\ Clause("free-move", (x >= e.lb /\ x <= e.ub) => (e.pos2 = x /\ e.vel2[1] = e.vel * e.vel2[2]))
ConstrictEv(e) ==      \* doubled values: res2 = 2 * result
    /\ Clause("no-exception", e.exc = "")
    /\ Clause("velocity-within-half-range", e.res2 <= e.ub - e.lb /\ e.res2 >= -(e.ub - e.lb))
    /\ Clause("velocity-unchanged-inside", (2 * e.v <= e.ub - e.lb /\ 2 * e.v >= -(e.ub - e.lb)) => e.res2 = 2 * e.v)
    /\ Clause("velocity-clamped-to-the-violated-limit", (2 * e.v > e.ub - e.lb => e.res2 = e.ub - e.lb) /\ (2 * e.v < -(e.ub - e.lb) => e.res2 = -(e.ub - e.lb)))
VelocityEv(e) == Clause("no-exception", e.exc = "") /\ Clause("velocity-within-half-range-after-update", e.absv <= e.half)
BestEv(e) ==
    /\ Clause("no-exception", e.exc = "")
    /\ Clause("best-never-replaced-by-a-dominated-position", Dominates(e.old, e.new) => ~e.replaced)
    /\ Clause("best-replaced-otherwise", ~Dominates(e.old, e.new) => e.replaced)
    /\ Clause("best-vector-follows-best-cost", e.vector_follows)
\* the first personal best of a particle (init_pbest, after the first evaluation) is its evaluated position: signed costs and vector
FirstBestEv(e) ==
    /\ Clause("no-exception", e.exc = "")
    /\ Clause("first-personal-best-is-the-evaluated-position", e.cur = e.best /\ e.same_length /\ e.vector_same)
LeadersEv(e) ==
    /\ Clause("no-exception", e.exc = "")
    /\ Clause("leaders-never-exceed-population-size", Len(e.members) <= e.n)
    /\ Clause("leaders-mutually-non-dominated", MutuallyND({ e.members[i] : i \in DOMAIN e.members }))
    /\ Clause("leaders-not-empty", Len(e.members) >= 1)
TInit == tid \in 1..Len(Traces) /\ l = 1
TNext == /\ l <= Len(Traces[tid])
         /\ CASE Ev.ev = "move"      -> MoveEv(Ev)
              [] Ev.ev = "constrict" -> ConstrictEv(Ev)
              [] Ev.ev = "velocity"  -> VelocityEv(Ev)
              [] Ev.ev = "best"      -> BestEv(Ev)
              [] Ev.ev = "firstbest" -> FirstBestEv(Ev)
              [] Ev.ev = "leaders"   -> LeadersEv(Ev)
              [] OTHER -> Clause("known-event", FALSE)
         /\ l' = l + 1 /\ UNCHANGED tid
TDone == l = Len(Traces[tid]) + 1
TReport == TDone => PrintT(<<"ACCEPT", tid>>)
=============================================================================
