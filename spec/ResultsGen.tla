---- MODULE ResultsGen ----
EXTENDS Results
====
