------------------------- MODULE IdentityTrace -------------------------
(* Validates observations of the real artap.individual.Individual (and of GeneticAlgorithm.generate, set(), list.remove,
   `in`) against the operators of Identity.  One trace = one case; events are independent observations.          *)
EXTENDS Identity, Json, IOUtils
Traces == JsonDeserialize(IOEnv.TRACE_FILE)
VARIABLES tid, l
Ev == Traces[tid][l]
\* diagnostic mode (ALLCLAUSES = "1", trace-mutation self-test only): a failing clause is reported and evaluation goes on, so that clauses
\* shadowed by an earlier one in the same conjunction are exercised too; in every registered check ALLCLAUSES = "0"
Clause(name, b) == IF b THEN TRUE ELSE PrintT(<<"FAIL", tid, l, name>>) /\ (IOEnv.ALLCLAUSES = "1")
Sel(s, idx) == [ k \in 1..Len(idx) |-> s[idx[k]] ]

PairOK(e) ==
    /\ Clause("no-exception", e.exc = "")
    /\ Clause("eq-iff-all-coordinates-coincide", e.eq_ab = Eq(e.a, e.b))
    /\ Clause("eq-symmetric", e.eq_ab = e.eq_ba)
    /\ Clause("identical-vectors-identical-hash", Identical(e.a, e.b) => e.hash_eq)
    /\ Clause("membership", e.a_in_b = Eq(e.a, e.b))
    /\ Clause("set-merges-repeats", Identical(e.a, e.b) => e.setsize = 1)
    /\ Clause("set-keeps-distinct", ~Eq(e.a, e.b) => e.setsize = 2)
    /\ Clause("remove-takes-the-right-one", ~Eq(e.a, e.b) => e.removed_a)

GenerateEvOK(e) ==
    /\ Clause("no-exception", e.exc = "")
    /\ Clause("generate-distinct-and-complete", GenerateOK(e.cands, e.consumed, e.size, e.res))

DedupeEvOK(e) ==
    /\ Clause("no-exception", e.exc = "")
    /\ Clause("dedupe", DedupeOK(e.lst, e.res))

RemoveEvOK(e) ==
    /\ Clause("no-exception", e.exc = "")
    /\ Clause("remove-found", e.found = Member(e.p, e.lst))
    /\ Clause("remove-result", Sel(e.lst, e.res) = RemoveFirst(e.p, e.lst))

TInit == tid \in 1..Len(Traces) /\ l = 1 /\ Init
TNext == /\ l <= Len(Traces[tid])
         /\ CASE Ev.ev = "pair"     -> PairOK(Ev)
              [] Ev.ev = "generate" -> GenerateEvOK(Ev)
              [] Ev.ev = "dedupe"   -> DedupeEvOK(Ev)
              [] Ev.ev = "remove"   -> RemoveEvOK(Ev)
              [] OTHER -> Clause("known-event", FALSE)
         /\ l' = l + 1 /\ UNCHANGED <<tid, vars>>
TDone == l = Len(Traces[tid]) + 1
TReport == TDone => PrintT(<<"ACCEPT", tid>>)
=============================================================================
