--------------------------------- MODULE Job ---------------------------------
(* C05 / C06 / C07 -- evaluation of a batch of designs: artap.job.Job.evaluate driven by Evaluator.evaluate_serial
   (Mode = "serial": one worker, skips every design that is not EMPTY) or Evaluator.evaluate_parallel (Mode =
   "parallel": joblib threads sharing the individuals and one Job; Job itself skips only EVALUATED designs).

   One action per step of the code that another thread or the caller can observe:
     Take          a worker picks the next design of the batch
     Begin         Job.evaluate entry: skip, or mark IN_PROGRESS and enter the user's objective
     ReturnOk      the objective returned: costs stored (they belong to the CURRENT vector), state EVALUATED
     ReturnTransient  TimeoutError / RuntimeError: failed copy recorded, vector re-sampled, state EMPTY, next attempt
                   or -- after MaxAttempts consecutive failures -- RuntimeError to the caller
     ReturnFatal   any other exception: propagates at once, the design is not marked evaluated
     SyncBegin / Commit   data_store.sync_individual: exclusive connection, upsert, commit
     Restart       the caller evaluates the same batch again (C05: repeated calls)
   Vectors are abstract keys; "costsFrom[d]" is the key of the vector the stored costs were computed from.        *)
EXTENDS Integers, Sequences, FiniteSets, TLC
CONSTANTS NDesigns, NWorkers, MaxAttempts, Faults, Mode, Repeats
Designs == 1..NDesigns
Workers == 1..NWorkers
VARIABLES st, vec, costsFrom, attempts, failed, ncalls, nfail, nextv,
          pending, wpc, wd, lock, txn, rows, raised, pre, round
vars == <<st, vec, costsFrom, attempts, failed, ncalls, nfail, nextv, pending, wpc, wd, lock, txn, rows, raised, pre, round>>
Init == /\ pre \in [Designs -> BOOLEAN]                      \* TRUE: already evaluated before the batch
        /\ st = [d \in Designs |-> IF pre[d] THEN "EVALUATED" ELSE "EMPTY"]
        /\ vec = [d \in Designs |-> d]
        /\ costsFrom = [d \in Designs |-> IF pre[d] THEN d ELSE 0]
        /\ attempts = [d \in Designs |-> 0]                  \* consecutive failures inside the current Job.evaluate call
        /\ nfail = [d \in Designs |-> 0]                     \* failures of this design over the whole history
        /\ failed = <<>> /\ ncalls = [d \in Designs |-> 0] /\ nextv = NDesigns + 1
        /\ pending = [i \in 1..NDesigns |-> i]
        /\ wpc = [w \in Workers |-> "idle"] /\ wd = [w \in Workers |-> 0]
        /\ lock = 0 /\ txn = [w \in Workers |-> <<>>]
        /\ rows = [d \in Designs |-> <<>>] /\ raised = "none" /\ round = 1
Take(w) == /\ wpc[w] = "idle" /\ pending # <<>>
           /\ (Mode = "serial" => raised = "none")           \* the serial loop stops at the exception; threads may go on
           /\ wd' = [wd EXCEPT ![w] = Head(pending)] /\ pending' = Tail(pending)
           /\ wpc' = [wpc EXCEPT ![w] = "job"]
           /\ UNCHANGED <<st, vec, costsFrom, attempts, failed, ncalls, nfail, nextv, lock, txn, rows, raised, pre, round>>
Skips(d) == IF Mode = "serial" THEN st[d] # "EMPTY" ELSE st[d] = "EVALUATED"
Begin(w) == /\ wpc[w] = "job"
            /\ LET d == wd[w] IN
               IF Skips(d) /\ attempts[d] = 0
               THEN /\ wpc' = [wpc EXCEPT ![w] = "idle"] /\ UNCHANGED <<st, ncalls>>
               ELSE /\ st' = [st EXCEPT ![d] = "IN_PROGRESS"]
                    /\ ncalls' = [ncalls EXCEPT ![d] = @ + 1]           \* the objective is entered
                    /\ wpc' = [wpc EXCEPT ![w] = "incall"]
            /\ UNCHANGED <<vec, costsFrom, attempts, failed, nfail, nextv, pending, wd, lock, txn, rows, raised, pre, round>>
ReturnOk(w) == /\ wpc[w] = "incall"
               /\ LET d == wd[w] IN
                  /\ costsFrom' = [costsFrom EXCEPT ![d] = vec[d]]
                  /\ st' = [st EXCEPT ![d] = "EVALUATED"]
                  /\ attempts' = [attempts EXCEPT ![d] = 0]
               /\ wpc' = [wpc EXCEPT ![w] = "sync"]
               /\ UNCHANGED <<vec, failed, ncalls, nfail, nextv, pending, wd, lock, txn, rows, raised, pre, round>>
ReturnTransient(w) == /\ "transient" \in Faults /\ wpc[w] = "incall"
               /\ LET d == wd[w] IN
                  /\ failed' = Append(failed, vec[d])
                  /\ vec' = [vec EXCEPT ![d] = nextv] /\ nextv' = nextv + 1       \* re-sampled inside the box
                  /\ st' = [st EXCEPT ![d] = "EMPTY"]
                  /\ nfail' = [nfail EXCEPT ![d] = @ + 1]
                  /\ IF attempts[d] + 1 = MaxAttempts
                     THEN /\ raised' = "RuntimeError" /\ wpc' = [wpc EXCEPT ![w] = "dead"]
                          /\ attempts' = [attempts EXCEPT ![d] = 0]
                     ELSE /\ raised' = raised /\ wpc' = [wpc EXCEPT ![w] = "job"]
                          /\ attempts' = [attempts EXCEPT ![d] = @ + 1]
               /\ UNCHANGED <<costsFrom, ncalls, pending, wd, lock, txn, rows, pre, round>>
ReturnFatal(w) == /\ "fatal" \in Faults /\ wpc[w] = "incall"
               /\ raised' = "Other" /\ wpc' = [wpc EXCEPT ![w] = "dead"]
               /\ attempts' = [attempts EXCEPT ![wd[w]] = 0]
               /\ UNCHANGED <<st, vec, costsFrom, failed, ncalls, nfail, nextv, pending, wd, lock, txn, rows, pre, round>>
SyncBegin(w) == /\ wpc[w] = "sync" /\ lock = 0
                /\ lock' = w /\ txn' = [txn EXCEPT ![w] = <<vec[wd[w]], costsFrom[wd[w]], st[wd[w]]>>]
                /\ wpc' = [wpc EXCEPT ![w] = "commit"]
                /\ UNCHANGED <<st, vec, costsFrom, attempts, failed, ncalls, nfail, nextv, pending, wd, rows, raised, pre, round>>
Commit(w) == /\ wpc[w] = "commit"
             /\ rows' = [rows EXCEPT ![wd[w]] = txn[w]] /\ lock' = 0
             /\ wpc' = [wpc EXCEPT ![w] = "idle"]
             /\ UNCHANGED <<st, vec, costsFrom, attempts, failed, ncalls, nfail, nextv, pending, wd, txn, raised, pre, round>>
Quiescent == pending = <<>> /\ \A w \in Workers : wpc[w] = "idle"
Restart == /\ Quiescent /\ raised = "none" /\ round < Repeats
           /\ pending' = [i \in 1..NDesigns |-> i] /\ round' = round + 1
           /\ UNCHANGED <<st, vec, costsFrom, attempts, failed, ncalls, nfail, nextv, wpc, wd, lock, txn, rows, raised, pre>>
Next == Restart \/ \E w \in Workers : Take(w) \/ Begin(w) \/ ReturnOk(w) \/ ReturnTransient(w) \/ ReturnFatal(w) \/ SyncBegin(w) \/ Commit(w)
Spec == Init /\ [][Next]_vars
\* ---------------------------------------------------------------- properties
RECURSIVE SumOver(_, _)
SumOver(f, S) == IF S = {} THEN 0 ELSE LET d == CHOOSE x \in S : TRUE IN f[d] + SumOver(f, S \ {d})
NeverOnEvaluated == \A d \in Designs : pre[d] => ncalls[d] = 0                         \* C05
AttemptBound     == \A d \in Designs : attempts[d] < MaxAttempts /\ ncalls[d] <= MaxAttempts * Repeats   \* C06: at most five attempts
FailedAccounting == Len(failed) = SumOver(nfail, Designs)                               \* C06: every failure is logged once
CallAccounting   == \A d \in Designs : ncalls[d] - nfail[d] \in {0, 1}                  \* one call per failure plus at most one more
Pairing          == \A d \in Designs : st[d] = "EVALUATED" => costsFrom[d] = vec[d]     \* costs belong to the stored vector
FailedAreOld     == \A i \in DOMAIN failed : \A d \in Designs : st[d] = "EVALUATED" => failed[i] # vec[d]   \* a failed vector is never a result
RowsFinal        == \A d \in Designs : rows[d] # <<>> => rows[d] = <<vec[d], costsFrom[d], "EVALUATED">>
\* C05 / C07: at quiescence without an exception every interleaving ends in the serial result
SerialEquivalent == (Quiescent /\ raised = "none") =>
     \A d \in Designs : /\ st[d] = "EVALUATED" /\ costsFrom[d] = vec[d]
                        /\ (~pre[d] => (ncalls[d] = nfail[d] + 1 /\ rows[d] = <<vec[d], vec[d], "EVALUATED">>))
ExactlyOnceNoFaults == (Quiescent /\ Faults = {}) => \A d \in Designs : ncalls[d] = (IF pre[d] THEN 0 ELSE 1)
RaiseLaw         == /\ (raised = "RuntimeError") => \E d \in Designs : nfail[d] >= MaxAttempts
                    /\ (Mode = "serial" /\ raised = "none") => \A d \in Designs : nfail[d] < MaxAttempts * Repeats
NotMarkedOnFatal == \A w \in Workers : (wpc[w] = "dead" /\ raised = "Other") => st[wd[w]] # "EVALUATED"
LockExclusive    == \A w1, w2 \in Workers : (wpc[w1] = "commit" /\ wpc[w2] = "commit") => w1 = w2
\* liveness under fair scheduling: without faults the batch always finishes (checked with SPECIFICATION FairSpec)
FairSpec == Spec /\ \A w \in Workers : WF_vars(Take(w) \/ Begin(w) \/ ReturnOk(w) \/ SyncBegin(w) \/ Commit(w))
Finishes == (Faults = {}) => <>(Quiescent /\ \A d \in Designs : st[d] = "EVALUATED")
=============================================================================
