------------------------------- MODULE Archive -------------------------------
(* C04 -- artap.archive.Archive: `add` at the grain of the code (scan over a snapshot of the content, delete dominated
   members while scanning, stop at the first member that dominates or equals the newcomer, append otherwise) and
   `truncate` (keep the `size` members with the largest feature value).

   The comparator is ParetoCmp or any resolution of the epsilon relation EpsCmp (nondeterministic on identical vectors).
   `nd` is the specification-level archive: the non-dominated set maintained incrementally (NDInsert); InvND / InvIncr
   show that the implementation-shaped content, the incremental set and the declarative NonDominated(offered) coincide,
   which is what licenses the trace validator to use the O(n) incremental form on long histories.             *)
EXTENDS DominanceOps, TLC
CONSTANTS M, Vals, Marks, MaxAdds, Comparator, MaxTrunc
Vec == [c : [1..M -> Vals], m : Marks]
VARIABLES contents, offered, nd, last, nadds, ntrunc,
          lastop, lastx, fresh      \* what the last step was: operation, offered vector, whether it had never been offered
vars == <<contents, offered, nd, last, nadds, ntrunc, lastop, lastx, fresh>>
SeqRange(s) == { s[i] : i \in DOMAIN s }
Verdicts(x, y) == IF Comparator = "pareto" THEN {ParetoCmp(x, y)} ELSE EpsCmp(x, y)

\* ---- implementation-shaped add -------------------------------------------------------------------------
\* rest: snapshot still to visit; kept: survivors so far; a deleted member is simply not carried over
RECURSIVE Scan(_, _, _)
Scan(rest, kept, x) ==
  IF rest = <<>> THEN { [c |-> Append(kept, x), ok |-> TRUE] }
  ELSE LET cur == Head(rest) IN
    UNION { IF f = 1 THEN Scan(Tail(rest), kept, x)                                  \* del self._contents[index - deleted]
            ELSE IF f = 2 THEN { [c |-> kept \o rest, ok |-> FALSE] }                \* is_dominated: break, earlier deletions stay
            ELSE IF x = cur THEN { [c |-> kept \o rest, ok |-> FALSE] }              \* is_contained: break
            ELSE Scan(Tail(rest), Append(kept, cur), x) : f \in Verdicts(x, cur) }
\* ---- specification-level add ---------------------------------------------------------------------------
NDInsert(S, x) == IF \E y \in S : Dominates(y, x) \/ y = x THEN S
                  ELSE { y \in S : ~Dominates(x, y) } \cup {x}
\* ---- truncate: any outcome that keeps the largest feature values ----------------------------------------
\* before / after: sequences of feature values (ranks) of the members, after is a sub-multiset of before
TruncOK(before, after, size) ==
    LET Count(s, v) == Cardinality({ i \in DOMAIN s : s[i] = v })
        vals == SeqRange(before) \cup SeqRange(after)
    IN /\ Len(after) = (IF size < Len(before) THEN size ELSE Len(before))
       /\ \A v \in vals : Count(after, v) <= Count(before, v)
       /\ \A v \in vals, w \in vals : (Count(after, v) < Count(before, v) /\ Count(after, w) > 0) => w >= v
Feat(v) == v.c[1]            \* the model's stand-in for features[getter]
NoVec == [c |-> <<>>, m |-> 0]
Init == /\ contents = <<>> /\ offered = {} /\ nd = {} /\ last = TRUE /\ nadds = 0 /\ ntrunc = 0
        /\ lastop = "none" /\ lastx = NoVec /\ fresh = FALSE
Add(x) == /\ nadds < MaxAdds
          /\ \E r \in Scan(contents, <<>>, x) : contents' = r.c /\ last' = r.ok
          /\ offered' = offered \cup {x}
          /\ nd' = NDInsert(nd, x)
          /\ nadds' = nadds + 1 /\ UNCHANGED ntrunc
          /\ lastop' = "add" /\ lastx' = x /\ fresh' = (x \notin offered)
\* truncation re-bases the archive: what it holds afterwards is all that later additions are compared with
Truncate(size) ==
          /\ ntrunc < MaxTrunc /\ contents # <<>>
          /\ \E keep \in SUBSET (DOMAIN contents) :
               LET idx == [ k \in 1..Cardinality(keep) |-> CHOOSE i \in keep : Cardinality({ j \in keep : j < i }) = k - 1 ]
                   aft == [ k \in DOMAIN idx |-> contents[idx[k]] ]
               IN /\ TruncOK([ i \in DOMAIN contents |-> Feat(contents[i]) ], [ k \in DOMAIN aft |-> Feat(aft[k]) ], size)
                  /\ contents' = aft /\ offered' = SeqRange(aft) /\ nd' = SeqRange(aft)
          /\ ntrunc' = ntrunc + 1 /\ UNCHANGED <<last, nadds>>
          /\ lastop' = "trunc" /\ lastx' = NoVec /\ fresh' = FALSE
Next == (\E x \in Vec : Add(x)) \/ (\E s \in 1..2 : Truncate(s))
Spec == Init /\ [][Next]_vars
\* ---- C04 ----
InvND      == SeqRange(contents) = NonDominated(offered)                  \* exactly the non-dominated offered vectors
InvIncr    == nd = NonDominated(offered)                                  \* the incremental form is the same set
InvOnce    == \A i, j \in DOMAIN contents : i # j => contents[i] # contents[j]     \* one representative each
InvMutual  == MutuallyND(SeqRange(contents))
InvCovered == \A x \in offered : \E y \in SeqRange(contents) : y = x \/ Dominates(y, x)   \* rejected / evicted are covered
\* an addition reports success exactly when the newcomer was inserted: success => it is a member; failure => a member
\* dominates or equals it; a never-offered vector that is non-dominated must be accepted; a dominated one must be refused
ResultLaw  == lastop = "add" =>
                /\ (last => lastx \in SeqRange(contents))
                /\ (~last => \E y \in SeqRange(contents) : y = lastx \/ Dominates(y, lastx))
                /\ ((fresh /\ lastx \in NonDominated(offered)) => last)
                /\ (lastx \notin NonDominated(offered) => ~last)
\* truncation never lets the archive grow beyond the requested size
TruncSize  == lastop = "trunc" => Len(contents) <= 2
=============================================================================
