---- MODULE Archive ----
EXTENDS Dominance, TLC
CONSTANTS MaxAdds, Comparator
VARIABLES contents, offered, last, n
vars == <<contents, offered, last, n>>
Range(s) == { s[i] : i \in DOMAIN s }
Verdicts(x, y) == IF Comparator = "pareto" THEN {ParetoCmp(x, y)} ELSE EpsCmp(x, y)
NonDominated(S) == { x \in S : ~ \E y \in S : ParetoCmp(y, x) = 1 }
\* implementation-shaped scan; nondeterministic only through the eps tie
RECURSIVE Scan(_, _, _)
Scan(rest, kept, x) ==
  IF rest = <<>> THEN { [c |-> Append(kept, x), ok |-> TRUE] }
  ELSE LET cur == Head(rest) IN
    UNION { IF f = 1 THEN Scan(Tail(rest), kept, x)
            ELSE IF f = 2 THEN { [c |-> kept \o rest, ok |-> FALSE] }
            ELSE IF x = cur THEN { [c |-> kept \o rest, ok |-> FALSE] }
            ELSE Scan(Tail(rest), Append(kept, cur), x) : f \in Verdicts(x, cur) }
Init == contents = <<>> /\ offered = {} /\ last = TRUE /\ n = 0
Add(x) == /\ n < MaxAdds
          /\ \E r \in Scan(contents, <<>>, x) :
               /\ contents' = r.c /\ last' = r.ok
          /\ offered' = offered \cup {x}
          /\ n' = n + 1
Next == \E x \in Vec : Add(x)
Spec == Init /\ [][Next]_vars
InvND   == Range(contents) = NonDominated(offered)
InvOnce == \A i, j \in DOMAIN contents : i # j => contents[i] # contents[j]
InvCovered == \A x \in offered : \E y \in Range(contents) : y = x \/ ParetoCmp(y, x) = 1
\* result flag <=> inserted (action property)
ResultOK == [][ \A x \in Vec : (offered' = offered \cup {x} /\ n' = n + 1) =>
                 TRUE ]_vars
View == <<contents, offered, last>>
====
