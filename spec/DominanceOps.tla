---------------------------- MODULE DominanceOps ----------------------------
(* Constant-free operators of constrained Pareto / epsilon dominance (C01); shared by the design models
   (Dominance, NDSort, Selection, Archive, Swarm, Run) and by every trace validator.

   A solution is a record [c |-> <<c1..cm>>, m |-> marker]: signed costs (smaller is better) and the feasibility
   marker that artap appends as the last entry of costs_signed (0 / False = feasible; otherwise the smaller
   magnitude is the smaller violation).                                                                      *)
EXTENDS Integers, Sequences, FiniteSets
AbsV(x) == IF x < 0 THEN -x ELSE x
CIdx(p) == 1..Len(p.c)
NoWorse(p, q) == \A i \in CIdx(p) : p.c[i] <= q.c[i]
Better(p, q)  == NoWorse(p, q) /\ \E i \in CIdx(p) : p.c[i] < q.c[i]
\* feasibility precedence exactly as the comparators code it: different markers -> 0 wins, then the smaller |marker|;
\* different markers of equal magnitude fall through to the objectives
MarkCmp(p, q) == IF p.m = q.m THEN 0
                 ELSE IF p.m = 0 THEN 1 ELSE IF q.m = 0 THEN 2
                 ELSE IF AbsV(p.m) < AbsV(q.m) THEN 1 ELSE IF AbsV(q.m) < AbsV(p.m) THEN 2 ELSE 0
\* the textbook definition: 1 = first dominates, 2 = second dominates, 0 = neither
ParetoCmp(p, q) == IF MarkCmp(p, q) # 0 THEN MarkCmp(p, q)
                   ELSE IF Better(p, q) THEN 1 ELSE IF Better(q, p) THEN 2 ELSE 0
Dominates(p, q) == ParetoCmp(p, q) = 1
\* the coded component-wise scan with early exit on conflict (ParetoDominance.compare)
RECURSIVE ScanFrom(_, _, _, _, _)
ScanFrom(p, q, i, dp, dq) ==
  IF i > Len(p.c) THEN (IF dp = dq THEN 0 ELSE IF dp THEN 1 ELSE 2)
  ELSE IF p.c[i] > q.c[i] THEN (IF dp THEN 0 ELSE ScanFrom(p, q, i + 1, dp, TRUE))
  ELSE IF q.c[i] > p.c[i] THEN (IF dq THEN 0 ELSE ScanFrom(p, q, i + 1, TRUE, dq))
  ELSE ScanFrom(p, q, i + 1, dp, dq)
ParetoScan(p, q) == IF MarkCmp(p, q) # 0 THEN MarkCmp(p, q) ELSE ScanFrom(p, q, 1, FALSE, FALSE)
\* epsilon comparator with positive epsilons: the set of admissible verdicts.  On identical cost vectors it must name
\* a loser (either one); everywhere else it agrees with ParetoCmp (scaling by eps > 0 preserves the order of values
\* that differ by more than rounding error -- the only pairs the property speaks about)
EpsCmp(p, q) == IF MarkCmp(p, q) # 0 THEN {MarkCmp(p, q)}
                ELSE IF p.c = q.c THEN {1, 2} ELSE {ParetoCmp(p, q)}
\* sets of solutions
NonDominated(S) == { x \in S : ~ \E y \in S : Dominates(y, x) }
MutuallyND(S)   == \A x, y \in S : ~Dominates(x, y)
Swap(v) == IF v = 1 THEN 2 ELSE IF v = 2 THEN 1 ELSE 0
=============================================================================
