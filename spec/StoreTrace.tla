------------------------------ MODULE StoreTrace ------------------------------
(* Validates recorded histories of a real SqliteDataStore against the abstract store of Store.tla: the durable table is a
   function id -> fingerprint (canonical encoding of vector, costs, signed costs, population id, custom data, features).
   C10 events:  mutate(id, fp)  sync(id, fp)  syncall(items[[id, fp]])  read(readable, rows[[id, fp]], dup, problem_ok)  final(recorded[[id, fp]])
   C11 events:  created  syncret(k, v, cf)  crash(point)  recover(readable, dup, rows[{k, v, cf, complete, st}])                  *)
EXTENDS Integers, Sequences, FiniteSets, TLC, Json, IOUtils
Traces == JsonDeserialize(IOEnv.TRACE_FILE)
VARIABLES tid, l, rows, live, returned, crashed
svars == <<rows, live, returned, crashed>>
Ev == Traces[tid][l]
\* diagnostic mode (ALLCLAUSES = "1", trace-mutation self-test only): a failing clause is reported and evaluation goes on, so that clauses
\* shadowed by an earlier one in the same conjunction are exercised too; in every registered check ALLCLAUSES = "0"
Clause(name, b) == IF b THEN TRUE ELSE PrintT(<<"FAIL", tid, l, name>>) /\ (IOEnv.ALLCLAUSES = "1")
Put(f, k, v) == [ i \in (DOMAIN f) \cup {k} |-> IF i = k THEN v ELSE f[i] ]
RECURSIVE PutAll(_, _, _)
PutAll(f, items, i) == IF i > Len(items) THEN f ELSE PutAll(Put(f, items[i][1], items[i][2]), items, i + 1)
AsFun(items) == PutAll(<<>>, items, 1)
MutateEv(e) == live' = Put(live, e.id, e.fp) /\ UNCHANGED <<rows, returned, crashed>>
SyncEv(e) == /\ Clause("no-exception", e.exc = "")
             /\ rows' = Put(rows, e.id, e.fp) /\ live' = Put(live, e.id, e.fp) /\ UNCHANGED <<returned, crashed>>
SyncAllEv(e) == /\ Clause("no-exception", e.exc = "")
                /\ rows' = PutAll(rows, e.items, 1) /\ live' = PutAll(live, e.items, 1) /\ UNCHANGED <<returned, crashed>>
ReadEv(e) ==
    /\ Clause("store-readable", e.readable)
    /\ Clause("problem-definition-round-trip", e.problem_ok)
    /\ Clause("one-row-per-id", e.dup = 0 /\ Cardinality({ e.rows[i][1] : i \in DOMAIN e.rows }) = Len(e.rows))
    /\ Clause("no-row-lost", \A id \in DOMAIN rows : \E i \in DOMAIN e.rows : e.rows[i][1] = id)
    /\ Clause("no-row-invented", \A i \in DOMAIN e.rows : e.rows[i][1] \in DOMAIN rows)
    /\ Clause("last-synchronisation-wins-and-data-identical",
              \A i \in DOMAIN e.rows : e.rows[i][1] \in DOMAIN rows => e.rows[i][2] = rows[e.rows[i][1]])
    /\ UNCHANGED svars
FinalEv(e) ==
    /\ Clause("every-recorded-individual-has-a-row", \A i \in DOMAIN e.recorded : e.recorded[i][1] \in DOMAIN rows)
    /\ Clause("rows-hold-final-data", \A i \in DOMAIN e.recorded : e.recorded[i][1] \in DOMAIN rows => rows[e.recorded[i][1]] = e.recorded[i][2])
    /\ UNCHANGED svars
\* ---- C11 ----
\* within one run an id names ONE design object: a second object whose synchronisation returns under an id already used would overwrite the
\* first one's row (e.obj numbers the design objects of the writer process)
SyncRetEv(e) == /\ Clause("an-id-names-one-design", e.k \notin DOMAIN returned \/ returned[e.k][3] = e.obj)
                /\ returned' = Put(returned, e.k, <<e.v, e.cf, e.obj>>) /\ UNCHANGED <<rows, live, crashed>>
CrashEv(e) == crashed' = TRUE /\ UNCHANGED <<rows, live, returned>>
RecoverEv(e) ==
    /\ Clause("crash-before-recover", crashed)
    /\ Clause("file-readable-after-crash", e.readable)
    /\ Clause("one-row-per-id", e.dup = 0)
    \* ... with the data it had when the synchronisation returned, or with NEWER data of the same individual: a later synchronisation may have
    \* committed (costs arrived) without having returned yet when the process died
    /\ Clause("returned-synchronisations-are-durable",
              \A k \in DOMAIN returned : \E i \in DOMAIN e.rows :
                  /\ e.rows[i].k = k
                  /\ \/ (e.rows[i].v = returned[k][1] /\ e.rows[i].cf = returned[k][2])
                     \/ (returned[k][2] = 0 /\ e.rows[i].cf = e.rows[i].v /\ e.rows[i].cf # 0))
    /\ Clause("no-partially-written-individual", \A i \in DOMAIN e.rows : e.rows[i].complete)
    /\ Clause("row-costs-match-row-vector", \A i \in DOMAIN e.rows : e.rows[i].cf = 0 \/ e.rows[i].cf = e.rows[i].v)
    /\ Clause("evaluated-rows-have-costs", \A i \in DOMAIN e.rows : e.rows[i].st = "evaluated" => e.rows[i].cf = e.rows[i].v)
    /\ UNCHANGED svars
TInit == tid \in 1..Len(Traces) /\ l = 1 /\ rows = <<>> /\ live = <<>> /\ returned = <<>> /\ crashed = FALSE
TNext == /\ l <= Len(Traces[tid])
         /\ CASE Ev.ev = "mutate"  -> MutateEv(Ev)
              [] Ev.ev = "sync"    -> SyncEv(Ev)
              [] Ev.ev = "syncall" -> SyncAllEv(Ev)
              [] Ev.ev = "read"    -> ReadEv(Ev)
              [] Ev.ev = "final"   -> FinalEv(Ev)
              [] Ev.ev = "syncret" -> SyncRetEv(Ev)
              [] Ev.ev = "crash"   -> CrashEv(Ev)
              [] Ev.ev = "recover" -> RecoverEv(Ev)
              [] Ev.ev \in {"created", "call", "ret", "point"} -> UNCHANGED svars
              [] Ev.ev = "childerror" -> Clause("writer-runs-without-exception", FALSE) /\ UNCHANGED svars
              [] OTHER -> Clause("known-event", FALSE) /\ UNCHANGED svars
         /\ l' = l + 1 /\ UNCHANGED tid
TDone == l = Len(Traces[tid]) + 1
TReport == TDone => PrintT(<<"ACCEPT", tid>>)
=============================================================================
