------------------------------ MODULE SortTrace ------------------------------
(* Validates observations of fast_nondominated_sorting (C02), crowding_distance, nondominated_truncate and
   TournamentSelector.select (C03) against SortOps.                                                       *)
EXTENDS SortOps, Json, IOUtils
Traces == JsonDeserialize(IOEnv.TRACE_FILE)
VARIABLES tid, l
Ev == Traces[tid][l]
\* diagnostic mode (ALLCLAUSES = "1", trace-mutation self-test only): a failing clause is reported and evaluation goes on, so that clauses
\* shadowed by an earlier one in the same conjunction are exercised too; in every registered check ALLCLAUSES = "0"
Clause(name, b) == IF b THEN TRUE ELSE PrintT(<<"FAIL", tid, l, name>>) /\ (IOEnv.ALLCLAUSES = "1")
SortEv(e) ==
    /\ Clause("no-exception", e.exc = "")
    /\ Clause("nobody-unranked", \A i \in DOMAIN e.ranks : e.ranks[i] >= 1)
    /\ Clause("rank-characterisation", RankOK(e.pop, e.ranks))
    /\ Clause("front1-is-nondominated-subset",
              { i \in DOMAIN e.pop : e.ranks[i] = 1 } = { i \in DOMAIN e.pop : Dominators(e.pop, i) = {} })
    /\ Clause("fronts-mutually-nondominated",
              \A i, j \in DOMAIN e.pop : e.ranks[i] = e.ranks[j] => ParetoCmp(e.pop[i], e.pop[j]) = 0)
CrowdEv(e) ==
    /\ Clause("no-exception", e.exc = "")
    /\ Clause("crowding-distance", CrowdingOK(e.front, e.cd))
TruncEv(e) ==
    /\ Clause("no-exception", e.exc = "")
    /\ Clause("truncate", TruncOK(e.pop, e.size, e.kept))
    /\ Clause("elitist", e.ranked => Elitist(e.pop, e.kept))
TournEv(e) ==
    /\ Clause("no-exception", e.exc = "")
    /\ Clause("tournament-member", e.member)
    /\ Clause("tournament", TournOK(e.a, e.b, e.res))
TInit == tid \in 1..Len(Traces) /\ l = 1
TNext == /\ l <= Len(Traces[tid])
         /\ CASE Ev.ev = "sort"  -> SortEv(Ev)
              [] Ev.ev = "crowd" -> CrowdEv(Ev)
              [] Ev.ev = "trunc" -> TruncEv(Ev)
              [] Ev.ev = "tourn" -> TournEv(Ev)
              [] OTHER -> Clause("known-event", FALSE)
         /\ l' = l + 1 /\ UNCHANGED tid
TDone == l = Len(Traces[tid]) + 1
TReport == TDone => PrintT(<<"ACCEPT", tid>>)
=============================================================================
