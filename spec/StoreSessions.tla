--------------------------- MODULE StoreSessions ---------------------------
(* Extension beyond the listed properties (DESIGN.md section 11): the life of one SQLite file over several processes ("sessions").
   C10 / C11 speak about one store object; this module models what `SqliteDataStore(problem, name, mode)` does when the file
   already exists, and how individual ids -- allocated from a per-process counter -- meet the ids already in the file.

     Open(mode)   a new process (id counter 0) attaches a store:
                    "rewrite"            the file is deleted and created empty with the session's definitions
                    "write", no file     created with the session's definitions
                    "write", file there  RESUME: every row is loaded into problem.individuals through from_dict -- which runs the
                                         constructor once per row, so the counter ends at the NUMBER of rows -- and the problem's
                                         definitions are replaced by the file's                        (named: DefinitionsTakenFromFile)
                    "read"               the same loading; later synchronisations are ignored
     New          the session creates and records an individual: id = counter
     Temp         an individual is constructed but never stored (copies, neighbours, rejected offspring): the counter advances
     Mutate(i)    a recorded individual changes (a newer version of the same individual)
     Sync(i)      upsert of a recorded individual's row
     Close

   IdPolicy = "count" is the pinned tree.  Because Temp leaves gaps, the number of rows can be smaller than the largest stored id,
   and a resumed session then allocates ids that are already in the file: its upsert replaces a row of the earlier session by a
   different individual.  NoLoss states that this never happens; TLC refutes it for "count" (named deviation IdCollisionAfterResume,
   confirmed on the real code: resuming an NSGA-II run into its own file overwrote rows 18 and 19) and proves it for the repair
   policy "max" (counter := 1 + largest loaded id).                                                                         *)
EXTENDS Integers, Sequences, FiniteSets, TLC
CONSTANTS MaxSessions, MaxOps, IdPolicy, Modes
VARIABLES exists,     \* the file is there
          file,       \* its rows: id -> [s |-> session that wrote it, n |-> serial of the individual in that session, v |-> version]
          filedef,    \* the definitions stored in the file (the number of the session that created it), 0 if none
          sess,       \* number of the current session (0: none yet)
          open, mode, counter,
          live,       \* individuals in problem.individuals: id -> [s, n]   (loaded rows keep their origin)
          probdef,    \* the definitions the problem object currently carries
          serial, nops
vars == <<exists, file, filedef, sess, open, mode, counter, live, probdef, serial, nops>>
NoFile == [x \in {} |-> 0]
Max(S) == CHOOSE x \in S : \A y \in S : y <= x
Init == /\ exists = FALSE /\ file = NoFile /\ filedef = 0 /\ sess = 0 /\ open = FALSE /\ mode = "" /\ counter = 0 /\ live = NoFile /\ probdef = 0
        /\ serial = 0 /\ nops = 0
Step == nops < MaxOps /\ nops' = nops + 1
Exists == exists
LoadedCounter(rows) == IF IdPolicy = "max" /\ DOMAIN rows # {} THEN Max(DOMAIN rows) + 1 ELSE Cardinality(DOMAIN rows)
Open(m) ==
   /\ Step /\ ~open /\ sess < MaxSessions /\ m \in Modes
   /\ (m = "read") => Exists                              \* a read-mode view of a missing file raises (not modelled further)
   /\ sess' = sess + 1 /\ open' = TRUE /\ mode' = m /\ serial' = 0
   /\ IF m = "rewrite" \/ (m = "write" /\ ~Exists)
      THEN /\ exists' = TRUE /\ file' = NoFile /\ filedef' = sess + 1 /\ live' = NoFile /\ probdef' = sess + 1 /\ counter' = 0
      ELSE /\ UNCHANGED <<exists, file, filedef>>
           /\ live' = file /\ probdef' = filedef /\ counter' = LoadedCounter(file)
New == /\ Step /\ open /\ mode # "read"
       /\ live' = [ i \in DOMAIN live \cup {counter} |-> IF i = counter THEN [s |-> sess, n |-> serial + 1, v |-> 0] ELSE live[i] ]
       /\ serial' = serial + 1 /\ counter' = counter + 1
       /\ UNCHANGED <<exists, file, filedef, sess, open, mode, probdef>>
Temp == /\ Step /\ open /\ counter' = counter + 1
        /\ UNCHANGED <<exists, file, filedef, sess, open, mode, live, probdef, serial>>
Sync(i) == /\ Step /\ open /\ i \in DOMAIN live
           /\ IF mode = "read" THEN UNCHANGED file
              ELSE file' = [ j \in DOMAIN file \cup {i} |-> IF j = i THEN live[i] ELSE file[j] ]
           /\ UNCHANGED <<exists, filedef, sess, open, mode, counter, live, probdef, serial>>
\* the recorded individual changes (costs arrive, features are updated): a newer version of the same individual
Mutate(i) == /\ Step /\ open /\ i \in DOMAIN live /\ live[i].v < 2
             /\ live' = [live EXCEPT ![i].v = @ + 1]
             /\ UNCHANGED <<exists, file, filedef, sess, open, mode, counter, probdef, serial>>
Close == /\ Step /\ open /\ open' = FALSE
         /\ UNCHANGED <<exists, file, filedef, sess, mode, counter, live, probdef, serial>>
Next == (\E m \in Modes : Open(m)) \/ New \/ Temp \/ (\E i \in 0..(2 * MaxOps) : Sync(i) \/ Mutate(i)) \/ Close
Spec == Init /\ [][Next]_vars
\* ---- properties ----
TypeOK == /\ \A i \in DOMAIN file : file[i].s \in 1..sess
          /\ (~exists) => file = NoFile
          /\ \A i \in DOMAIN live : live[i].s \in 1..sess
RewriteStartsEmpty == [][ Open("rewrite") => (file' = NoFile /\ live' = NoFile) ]_vars
ResumeLoadsEverything == [][ \A m \in {"write", "read"} : (Open(m) /\ Exists) => (live' = file /\ probdef' = filedef) ]_vars
ReadModeNeverWrites == [][ (open /\ mode = "read") => (file' = file) ]_vars
\* a row is replaced only by a newer state of the SAME individual: same session of origin and same serial
NoLoss == [][ (\A m \in Modes : ~Open(m)) => \A i \in DOMAIN file : i \in DOMAIN file' /\ file'[i].s = file[i].s /\ file'[i].n = file[i].n ]_vars
\* weaker: within one session ids of recorded individuals are distinct (holds under both policies)
LiveIdsDistinct == \A i, j \in DOMAIN live : (i # j) => <<live[i].s, live[i].n>> # <<live[j].s, live[j].n>>
=============================================================================
