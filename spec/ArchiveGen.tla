---- MODULE ArchiveGen ----
(* behaviour emitter: every history of adds (and truncations) of the Archive model, as JSON *)
EXTENDS Archive, Json
VARIABLE hist
GInit == Init /\ hist = <<>>
GNext == \/ \E x \in Vec : Add(x) /\ hist' = Append(hist, [op |-> "add", x |-> x, size |-> 0])
         \/ \E s \in 1..2 : Truncate(s) /\ hist' = Append(hist, [op |-> "trunc", x |-> [c |-> <<>>, m |-> 0], size |-> s])
Emit == (nadds = MaxAdds) => PrintT(<<"BEH", ToJson(hist)>>)
====
