--------------------------- MODULE IndividualLifeTrace ---------------------------
(* Validates recorded operation histories of real artap design objects against IndividualLife: after every operation the whole
   projected heap (ids relative to the counter at the start, the identity of every vector / costs / signed-costs list numbered in
   order of first appearance, list contents, class, population, state) must equal the specification's next state.               *)
EXTENDS IndividualLife, Json, IOUtils
Traces == JsonDeserialize(IOEnv.TRACE_FILE)
VARIABLES tid, l
Ev == Traces[tid][l]
\* diagnostic mode (ALLCLAUSES = "1", trace-mutation self-test only): a failing clause is reported and evaluation goes on, so that clauses
\* shadowed by an earlier one in the same conjunction are exercised too; in every registered check ALLCLAUSES = "0"
Clause(name, b) == IF b THEN TRUE ELSE PrintT(<<"FAIL", tid, l, name>>) /\ (IOEnv.ALLCLAUSES = "1")
Act(e) == CASE e.op = "new"        -> New(e.x, e.cls)
            [] e.op = "copy"       -> Copy(e.i)
            [] e.op = "copynsga"   -> CopyNsga(e.i)
            [] e.op = "tofrom"     -> ToFrom(e.i)
            [] e.op = "tofromjson" -> ToFromJson(e.i)
            [] e.op = "copyswarm"  -> CopySwarm(e.i)
            [] e.op = "initpbest"  -> InitPbest(e.i)
            [] e.op = "sync"       -> Sync(e.i, e.j)
            [] e.op = "setvec"     -> SetVec(e.i, e.x)
            [] e.op = "setcost"    -> SetCost(e.i, e.x)
            [] e.op = "setsigned"  -> SetSigned(e.i, e.x)
            [] e.op = "setfeat"    -> SetFeat(e.i, e.x)
Known == {"new", "copy", "copynsga", "tofrom", "tofromjson", "copyswarm", "initpbest", "sync", "setvec", "setcost", "setsigned", "setfeat"}
OpEv(e) ==
    /\ Clause("no-exception", e.exc = "")
    /\ Clause("known-operation", e.op \in Known)
    /\ Clause("operation-enabled-in-the-model", ENABLED Act(e))
    /\ Act(e)
    /\ Clause("id-counter", e.counter = counter')
    /\ Clause("number-of-objects", Len(e.objs) = Len(objs'))
    /\ Clause("ids", \A k \in DOMAIN objs' : e.objs[k].id = objs'[k].id)
    /\ Clause("class-population-state", \A k \in DOMAIN objs' : <<e.objs[k].cls, e.objs[k].pop, e.objs[k].state>> = <<objs'[k].cls, objs'[k].pop, objs'[k].state>>)
    /\ Clause("vector-aliasing", \A k \in DOMAIN objs' : e.objs[k].vec = objs'[k].vec)
    /\ Clause("costs-aliasing", \A k \in DOMAIN objs' : e.objs[k].costs = objs'[k].costs)
    /\ Clause("signed-costs-aliasing", \A k \in DOMAIN objs' : e.objs[k].signed = objs'[k].signed)
    /\ Clause("features-aliasing", \A k \in DOMAIN objs' : e.objs[k].feat = objs'[k].feat)
    /\ Clause("personal-best-aliasing", \A k \in DOMAIN objs' : e.objs[k].best = (IF objs'[k].feat \in DOMAIN best' THEN best'[objs'[k].feat] ELSE 0))
    /\ Clause("personal-best-key", \A k \in DOMAIN objs' : e.objs[k].haskey = (objs'[k].feat \in DOMAIN best'))
    /\ Clause("list-contents", e.lists = lists')
TInit == tid \in 1..Len(Traces) /\ l = 1 /\ Init
TNext == /\ l <= Len(Traces[tid])
         /\ OpEv(Ev)
         /\ l' = l + 1 /\ UNCHANGED tid
TDone == l = Len(Traces[tid]) + 1
TReport == TDone => PrintT(<<"ACCEPT", tid>>)
=============================================================================
