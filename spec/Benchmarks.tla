----------------------------- MODULE Benchmarks -----------------------------
(* C16 -- design check of the transcription in BenchOps: over the whole lattice (all position classes x all distance
   vectors for a small k) the family identities hold for the specification's own definition of the objectives:
     DTLZ1:   sum_i f_i = (1 + g) / 2            DTLZ2-4:  sum_i f_i^2 = (1 + g)^2           all f_i >= 0,
   and on Boolean position vectors exactly one DTLZ2-4 objective is non-zero (the corners of the sphere).        *)
EXTENDS BenchOps, TLC
CONSTANTS MObj, K
Angles2 == { <<1, 0, 1>>, <<0, 1, 1>>, <<3, 4, 5>>, <<4, 3, 5>>, <<5, 12, 13>>, <<12, 5, 13>> }   \* cos, sin, den
Angles1 == { <<0, 1, 1>>, <<1, 0, 1>>, <<1, 1, 2>>, <<1, 3, 4>>, <<3, 1, 4>>, <<1, 7, 8>> }        \* x, 1-x, den
VARIABLES family, pt
Init == /\ family \in {"dtlz1", "dtlz2", "dtlz3", "dtlz4"}
        /\ pt \in [pos : [1..(MObj - 1) -> (IF family = "dtlz1" THEN Angles1 ELSE Angles2)], dist : [1..K -> 0..4]]
Next == UNCHANGED <<family, pt>>
Spec == Init /\ [][Next]_<<family, pt>>
Objs == 1..MObj
F(i) == Objective(family, pt, MObj, i)
\* common denominator of all objectives: product of all position denominators (times 32 / 16)
DAll == ProdDen(pt.pos, MObj - 1)
\* numerator of objective i over the common denominator DAll (g factor left out)
NumAll(i) == ShapeNum(pt.pos, MObj, i) * (DAll \div ShapeDen(pt.pos, MObj, i))
RECURSIVE SumNum(_)
SumNum(S) == IF S = {} THEN 0 ELSE LET i == CHOOSE j \in S : TRUE IN NumAll(i) + SumNum(S \ {i})
RECURSIVE SumSqNum(_)
SumSqNum(S) == IF S = {} THEN 0 ELSE LET i == CHOOSE j \in S : TRUE IN NumAll(i) * NumAll(i) + SumSqNum(S \ {i})
SumIdentity1  == family = "dtlz1" => SumNum(Objs) = DAll                          \* sum f_i = (1+g)/2
NormIdentity2 == family # "dtlz1" => SumSqNum(Objs) = DAll * DAll                  \* sum f_i^2 = (1+g)^2
NonNeg        == \A i \in Objs : F(i)[1] >= 0 /\ F(i)[2] > 0
Boolean(p)    == \A j \in DOMAIN p : p[j] \in { <<1, 0, 1>>, <<0, 1, 1>> }
ExactlyOne2   == (family # "dtlz1" /\ Boolean(pt.pos)) => Cardinality({ i \in Objs : F(i)[1] # 0 }) = 1
DivisibleDen  == \A i \in Objs : DAll % ShapeDen(pt.pos, MObj, i) = 0
=============================================================================
