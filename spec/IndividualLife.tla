--------------------------- MODULE IndividualLife ---------------------------
(* Extension beyond the listed properties (DESIGN.md section 11): the life of design objects as the rest of the framework relies on it.
   Abstract heap of design objects o = [id, vec, costs, state, pop]; `vec` / `costs` are REFERENCES into a heap of list objects, because
   aliasing is exactly what distinguishes the operations:
     New(v)        fresh id (global counter), own copy of the vector, no costs, state EMPTY, population -1
     Copy(o)       base-class copy(): fresh id, OWN copy of the vector, no costs
     CopyNsga(o)   IndividualNSGAII.copy(): fresh id, own vector, costs list SHARED with the original (named: SharedCosts)
     Sync(a, b)    a.sync(b): a takes b's vector and costs BY REFERENCE (named: SyncAliases), id unchanged
     ToFrom(o)     from_dict(to_dict(o)): a new object with the SAME id, equal vector and costs in fresh lists, state as a string;
                   the id counter still advances (the constructor runs)
     SetVec(o, x)  in-place change of one vector cell (what swarm moves do)                                                        *)
EXTENDS Integers, Sequences, FiniteSets, TLC
CONSTANTS MaxObjs, MaxOps, Vals
VARIABLES objs,      \* sequence of objects [id, vec (list ref), costs (list ref), state, pop]
          lists,     \* heap of list objects: ref -> sequence of values
          counter, nops
vars == <<objs, lists, counter, nops>>
NewList(content) == Len(lists) + 1
Init == objs = <<>> /\ lists = <<>> /\ counter = 0 /\ nops = 0
Step == nops < MaxOps /\ nops' = nops + 1
New(v) == /\ Step /\ Len(objs) < MaxObjs
          /\ lists' = lists \o << <<v>>, <<>> >>
          /\ objs' = Append(objs, [id |-> counter, vec |-> Len(lists) + 1, costs |-> Len(lists) + 2, state |-> "EMPTY", pop |-> -1])
          /\ counter' = counter + 1
Copy(i) == /\ Step /\ Len(objs) < MaxObjs /\ i \in DOMAIN objs
           /\ lists' = lists \o << lists[objs[i].vec], <<>> >>
           /\ objs' = Append(objs, [id |-> counter, vec |-> Len(lists) + 1, costs |-> Len(lists) + 2, state |-> "EMPTY", pop |-> -1])
           /\ counter' = counter + 1
CopyNsga(i) == /\ Step /\ Len(objs) < MaxObjs /\ i \in DOMAIN objs
               /\ lists' = Append(lists, lists[objs[i].vec])
               /\ objs' = Append(objs, [id |-> counter, vec |-> Len(lists) + 1, costs |-> objs[i].costs, state |-> "EMPTY", pop |-> 0])
               /\ counter' = counter + 1
Sync(a, b) == /\ Step /\ a \in DOMAIN objs /\ b \in DOMAIN objs /\ a # b
              /\ objs' = [objs EXCEPT ![a] = [@ EXCEPT !.vec = objs[b].vec, !.costs = objs[b].costs, !.state = objs[b].state, !.pop = objs[b].pop]]
              /\ UNCHANGED <<lists, counter>>
ToFrom(i) == /\ Step /\ Len(objs) < MaxObjs /\ i \in DOMAIN objs
             /\ lists' = lists \o << lists[objs[i].vec], lists[objs[i].costs] >>
             /\ objs' = Append(objs, [id |-> objs[i].id, vec |-> Len(lists) + 1, costs |-> Len(lists) + 2, state |-> "string", pop |-> objs[i].pop])
             /\ counter' = counter + 1
SetVec(i, x) == /\ Step /\ i \in DOMAIN objs /\ lists[objs[i].vec] # <<>>
                /\ lists' = [lists EXCEPT ![objs[i].vec] = [@ EXCEPT ![1] = x]]
                /\ UNCHANGED <<objs, counter>>
SetCost(i, x) == /\ Step /\ i \in DOMAIN objs
                 /\ lists' = [lists EXCEPT ![objs[i].costs] = Append(@, x)]
                 /\ UNCHANGED <<objs, counter>>
Next == \/ \E v \in Vals : New(v)
        \/ \E i \in 1..MaxObjs : Copy(i) \/ CopyNsga(i) \/ ToFrom(i)
        \/ \E a, b \in 1..MaxObjs : Sync(a, b)
        \/ \E i \in 1..MaxObjs, x \in Vals : SetVec(i, x) \/ SetCost(i, x)
Spec == Init /\ [][Next]_vars
\* ---- what the rest of the framework relies on ----
CounterAhead == \A i \in DOMAIN objs : objs[i].id < counter                                 \* a fresh id is never one in use
\* constructed objects (everything except from_dict results) have pairwise different ids
ConstructedIdsUnique == \A i, j \in DOMAIN objs : (i # j /\ objs[i].id = objs[j].id) => (objs[i].state = "string" \/ objs[j].state = "string")
\* vectors are never shared except through sync (copy() and from_dict() isolate the vector)
VectorAliasOnlyBySync == [][ \A i, j \in DOMAIN objs' : (i # j /\ objs'[i].vec = objs'[j].vec) =>
                               ((i \in DOMAIN objs /\ j \in DOMAIN objs /\ objs[i].vec = objs[j].vec)
                                \/ \E a, b \in DOMAIN objs : objs' = [objs EXCEPT ![a] = objs'[a]] /\ objs'[a].vec = objs[b].vec) ]_vars
=============================================================================
