--------------------------- MODULE IndividualLife ---------------------------
(* Extension beyond the listed properties (DESIGN.md section 11): the life of design objects as the rest of the framework relies on it
   (C10 / C14 / C18 defects all turned on it: who shares which list with whom).
   Abstract heap: objects o = [id, vec, costs, signed, origin, pop]; vec / costs / signed are REFERENCES into a heap of list objects,
   because aliasing is exactly what distinguishes the operations:
     New(v)        constructor: fresh id from the global counter, OWN copy of the vector, fresh empty costs / signed lists
     Copy(i)       Individual.copy(): a constructor call on the original's vector -- nothing shared, costs not carried over
     CopyNsga(i)   IndividualNSGAII.copy(): own vector, costs and signed lists SHARED with the original        (named: SharedCosts)
     Sync(a, b)    a.sync(b): a takes b's vector, costs and signed lists BY REFERENCE, keeps its id            (named: SyncAliases)
     ToFrom(i)     from_dict(to_dict(o)) without serialisation: same id, fresh vector and costs lists, signed list SHARED
                   (to_dict copies vector and costs but passes costs_signed through)                           (named: SignedPassedThrough)
     ToFromJson(i) the same through JSON text (what the SQLite store does): same id, nothing shared
                   -- both run the base-class constructor, so the id counter advances although the id is overwritten; the result is a
                      base-class object whose state is the STRING 'empty', not the enum member                  (named: StateBecomesString)
     SetVec / SetCost / SetSigned   in-place change through one object: visible through exactly the aliases              *)
EXTENDS Integers, Sequences, FiniteSets, TLC
CONSTANTS MaxObjs, MaxOps, Vals
VARIABLES objs, lists, counter, nops
vars == <<objs, lists, counter, nops>>
Init == objs = <<>> /\ lists = <<>> /\ counter = 0 /\ nops = 0
Step == nops < MaxOps /\ nops' = nops + 1
Room == Len(objs) < MaxObjs
Obj(id, v, c, s, f, origin, cls, pop, st) == [id |-> id, vec |-> v, costs |-> c, signed |-> s, feat |-> f, origin |-> origin, cls |-> cls, pop |-> pop, state |-> st]
Classes == {"base", "nsga"}
\* to_dict names the enum member in lower case; a state that already is a string (an object that came from from_dict) is not
\* recognised by to_string and becomes None: a second round trip loses the state                          (named: StateLostOnSecondRoundTrip)
DictState(st) == IF st = "EMPTY" THEN "empty" ELSE "None"
CtorPop(cls) == IF cls = "nsga" THEN 0 ELSE -1          \* IndividualNSGAII starts in population 0, the base class in -1
N == Len(lists)
New(v, cls) == /\ Step /\ Room
          /\ lists' = lists \o << <<v>>, <<>>, <<>>, <<>> >>
          /\ objs' = Append(objs, Obj(counter, N + 1, N + 2, N + 3, N + 4, "ctor", cls, CtorPop(cls), "EMPTY"))
          /\ counter' = counter + 1
Copy(i) == /\ Step /\ Room /\ i \in DOMAIN objs
           /\ lists' = lists \o << lists[objs[i].vec], <<>>, <<>>, <<>> >>
           /\ objs' = Append(objs, Obj(counter, N + 1, N + 2, N + 3, N + 4, "ctor", objs[i].cls, CtorPop(objs[i].cls), "EMPTY"))
           /\ counter' = counter + 1
CopyNsga(i) == /\ Step /\ Room /\ i \in DOMAIN objs /\ objs[i].cls = "nsga"
               /\ lists' = lists \o << lists[objs[i].vec], <<>> >>
               /\ objs' = Append(objs, Obj(counter, N + 1, objs[i].costs, objs[i].signed, N + 2, "ctor", "nsga", 0, "EMPTY"))
               /\ counter' = counter + 1
Sync(a, b) == /\ Step /\ a \in DOMAIN objs /\ b \in DOMAIN objs /\ a # b
              /\ objs' = [objs EXCEPT ![a] = [@ EXCEPT !.vec = objs[b].vec, !.costs = objs[b].costs, !.signed = objs[b].signed, !.feat = objs[b].feat,
                                                            !.pop = objs[b].pop, !.state = objs[b].state]]
              /\ UNCHANGED <<lists, counter>>
ToFrom(i) == /\ Step /\ Room /\ i \in DOMAIN objs
             /\ lists' = lists \o << lists[objs[i].vec], lists[objs[i].costs], lists[objs[i].feat] >>
             /\ objs' = Append(objs, Obj(objs[i].id, N + 1, N + 2, objs[i].signed, N + 3, "dict", "base", objs[i].pop, DictState(objs[i].state)))
             /\ counter' = counter + 1
ToFromJson(i) == /\ Step /\ Room /\ i \in DOMAIN objs
                 /\ lists' = lists \o << lists[objs[i].vec], lists[objs[i].costs], lists[objs[i].signed], lists[objs[i].feat] >>
                 /\ objs' = Append(objs, Obj(objs[i].id, N + 1, N + 2, N + 3, N + 4, "dict", "base", objs[i].pop, DictState(objs[i].state)))
                 /\ counter' = counter + 1
SetVec(i, x) == /\ Step /\ i \in DOMAIN objs
                /\ lists' = [lists EXCEPT ![objs[i].vec] = [@ EXCEPT ![1] = x]]
                /\ UNCHANGED <<objs, counter>>
SetCost(i, x) == /\ Step /\ i \in DOMAIN objs /\ Len(lists[objs[i].costs]) < 2
                 /\ lists' = [lists EXCEPT ![objs[i].costs] = Append(@, x)]
                 /\ UNCHANGED <<objs, counter>>
SetSigned(i, x) == /\ Step /\ i \in DOMAIN objs /\ Len(lists[objs[i].signed]) < 2
                   /\ lists' = [lists EXCEPT ![objs[i].signed] = Append(@, x)]
                   /\ UNCHANGED <<objs, counter>>
\* the features dictionary (one tracked key): every constructor call and every dictionary round trip makes a fresh one; only sync shares it
SetFeat(i, x) == /\ Step /\ i \in DOMAIN objs
                 /\ lists' = [lists EXCEPT ![objs[i].feat] = <<x>>]
                 /\ UNCHANGED <<objs, counter>>
Next == \/ \E v \in Vals, c \in Classes : New(v, c)
        \/ \E i \in 1..MaxObjs : Copy(i) \/ CopyNsga(i) \/ ToFrom(i) \/ ToFromJson(i)
        \/ \E a, b \in 1..MaxObjs : Sync(a, b)
        \/ \E i \in 1..MaxObjs, x \in Vals : SetVec(i, x) \/ SetCost(i, x) \/ SetSigned(i, x) \/ SetFeat(i, x)
Spec == Init /\ [][Next]_vars
\* ---- what the rest of the framework relies on ----
TypeOK == \A i \in DOMAIN objs : {objs[i].vec, objs[i].costs, objs[i].signed, objs[i].feat} \subseteq DOMAIN lists
CounterAhead == \A i \in DOMAIN objs : objs[i].id < counter                                   \* a fresh id is never one in use
CtorIdsUnique == \A i, j \in DOMAIN objs : (i # j /\ objs[i].origin = "ctor" /\ objs[j].origin = "ctor") => objs[i].id # objs[j].id
\* a vector list is never the costs or signed list of anything (the three kinds of list never mix)
KindsApart == \A i, j \in DOMAIN objs : /\ objs[i].vec \notin {objs[j].costs, objs[j].signed, objs[j].feat}
                                         /\ objs[i].costs \notin {objs[j].signed, objs[j].feat} /\ objs[i].signed # objs[j].feat
\* feature dictionaries are shared only through sync: copies and round trips get their own (C07's parallel evaluation writes the
\* feasibility of a design into its features while other designs are in flight)
FeatSharedOnlyBySync ==
   [][ (\A a, b \in 1..MaxObjs : ~Sync(a, b)) =>
         \A i, j \in DOMAIN objs' : (i # j /\ objs'[i].feat = objs'[j].feat) => (i \in DOMAIN objs /\ j \in DOMAIN objs /\ objs[i].feat = objs[j].feat) ]_vars
\* vectors become shared only through sync: every other operation gives the new object a vector of its own
VecSharedOnlyBySync ==
   [][ (\A a, b \in 1..MaxObjs : ~Sync(a, b)) =>
         \A i, j \in DOMAIN objs' : (i # j /\ objs'[i].vec = objs'[j].vec) => (i \in DOMAIN objs /\ j \in DOMAIN objs /\ objs[i].vec = objs[j].vec) ]_vars
\* a stored and re-read design (JSON path) is isolated from the live one
JsonIsolates == [][ \A i \in 1..MaxObjs : ToFromJson(i) =>
                       LET n == Len(objs') IN \A j \in DOMAIN objs : {objs'[n].vec, objs'[n].costs, objs'[n].signed, objs'[n].feat} \cap {objs[j].vec, objs[j].costs, objs[j].signed, objs[j].feat} = {} ]_vars
=============================================================================
