--------------------------- MODULE IndividualLife ---------------------------
(* Extension beyond the listed properties (DESIGN.md section 11): the life of design objects as the rest of the framework relies on it
   (C10 / C14 / C18 defects all turned on it: who shares which list with whom).
   Abstract heap: objects o = [id, vec, costs, signed, origin, pop]; vec / costs / signed are REFERENCES into a heap of list objects,
   because aliasing is exactly what distinguishes the operations:
     New(v)        constructor: fresh id from the global counter, OWN copy of the vector, fresh empty costs / signed lists
     Copy(i)       Individual.copy(): a constructor call on the original's vector -- nothing shared, costs not carried over
     CopyNsga(i)   IndividualNSGAII.copy(): own vector, costs and signed lists SHARED with the original        (named: SharedCosts)
     Sync(a, b)    a.sync(b): a takes b's vector, costs and signed lists BY REFERENCE, keeps its id            (named: SyncAliases)
     ToFrom(i)     from_dict(to_dict(o)) without serialisation: same id, fresh vector and costs lists, signed list SHARED
                   (to_dict copies vector and costs but passes costs_signed through)                           (named: SignedPassedThrough)
     ToFromJson(i) the same through JSON text (what the SQLite store does): same id, nothing shared
                   -- both run the base-class constructor, so the id counter advances although the id is overwritten; the result is a
                      base-class object whose state is the STRING 'empty', not the enum member                  (named: StateBecomesString)
     SetVec / SetCost / SetSigned   in-place change through one object: visible through exactly the aliases
   Particles (IndividualSwarm, class "swarm"): the personal best VECTOR is a reference kept in the features dictionary (best[f] for the
   dictionary f; absent = None), so whoever shares the dictionary shares the personal best:
     InitPbest(i)  SwarmAlgorithm.init_pbest / update_particle_best: best_vector := the particle's OWN vector list, by reference
                   -- an in-place move of the particle (update_position writes vector[k]) moves its personal best with it
                                                                                                                (named: BestAliasesPosition)
     CopySwarm(i)  IndividualSwarm.copy(): own vector, fresh dictionary, personal best SHARED with the original   (named: BestSharedByCopy)
                   -- what makes the generation loop safe is the order copy -> move the copy -> update the copy's best: the copy's
                      vector is fresh, so moving it disturbs nobody's personal best                              (CopyIsolatesPosition)
     ToFrom / ToFromJson copy the personal best into a list of its own (_replace_individual_id rebuilds every iterable feature)          *)
EXTENDS Integers, Sequences, FiniteSets, TLC
CONSTANTS MaxObjs, MaxOps, Vals
VARIABLES objs, lists, counter, nops, best
vars == <<objs, lists, counter, nops, best>>
Init == objs = <<>> /\ lists = <<>> /\ counter = 0 /\ nops = 0 /\ best = <<>>
\* best[f]: the 'best_vector' entry of dictionary f -- f \notin DOMAIN best: the key is absent (a dictionary made by a non-particle
\* constructor); 0: the key is there and holds None; otherwise the reference of the list
BestOf(f) == IF f \in DOMAIN best THEN best[f] ELSE 0
HasBestKey(f) == f \in DOMAIN best
CtorBest(cls, f) == IF cls = "swarm" THEN (f :> 0) @@ best ELSE best
Step == nops < MaxOps /\ nops' = nops + 1
Room == Len(objs) < MaxObjs
Obj(id, v, c, s, f, origin, cls, pop, st) == [id |-> id, vec |-> v, costs |-> c, signed |-> s, feat |-> f, origin |-> origin, cls |-> cls, pop |-> pop, state |-> st]
Classes == {"base", "nsga", "swarm"}
\* to_dict names the enum member in lower case; a state that already is a string (an object that came from from_dict) is not
\* recognised by to_string and becomes None: a second round trip loses the state                          (named: StateLostOnSecondRoundTrip)
DictState(st) == IF st = "EMPTY" THEN "empty" ELSE "None"
CtorPop(cls) == IF cls = "nsga" THEN 0 ELSE -1          \* IndividualNSGAII starts in population 0, the base class in -1
N == Len(lists)
New(v, cls) == /\ Step /\ Room
          /\ lists' = lists \o << <<v>>, <<>>, <<>>, <<>> >>
          /\ objs' = Append(objs, Obj(counter, N + 1, N + 2, N + 3, N + 4, "ctor", cls, CtorPop(cls), "EMPTY"))
          /\ counter' = counter + 1 /\ best' = CtorBest(cls, N + 4)
Copy(i) == /\ Step /\ Room /\ i \in DOMAIN objs
           /\ lists' = lists \o << lists[objs[i].vec], <<>>, <<>>, <<>> >>
           /\ objs' = Append(objs, Obj(counter, N + 1, N + 2, N + 3, N + 4, "ctor", objs[i].cls, CtorPop(objs[i].cls), "EMPTY"))
           /\ counter' = counter + 1 /\ best' = CtorBest(objs[i].cls, N + 4)
CopyNsga(i) == /\ Step /\ Room /\ i \in DOMAIN objs /\ objs[i].cls = "nsga"
               /\ lists' = lists \o << lists[objs[i].vec], <<>> >>
               /\ objs' = Append(objs, Obj(counter, N + 1, objs[i].costs, objs[i].signed, N + 2, "ctor", "nsga", 0, "EMPTY"))
               /\ counter' = counter + 1 /\ UNCHANGED best
Sync(a, b) == /\ Step /\ a \in DOMAIN objs /\ b \in DOMAIN objs /\ a # b
              /\ objs' = [objs EXCEPT ![a] = [@ EXCEPT !.vec = objs[b].vec, !.costs = objs[b].costs, !.signed = objs[b].signed, !.feat = objs[b].feat,
                                                            !.pop = objs[b].pop, !.state = objs[b].state]]
              /\ UNCHANGED <<lists, counter>> /\ UNCHANGED best
\* the personal best of the source, if any, is rebuilt as a list of its own right after the new dictionary
WithBest(src, base, f) == IF ~HasBestKey(src) THEN <<base, best>>
                          ELSE IF best[src] = 0 THEN <<base, (f :> 0) @@ best>>
                          ELSE <<Append(base, lists[best[src]]), (f :> (Len(base) + 1)) @@ best>>
ToFrom(i) == /\ Step /\ Room /\ i \in DOMAIN objs
             /\ LET wb == WithBest(objs[i].feat, lists \o << lists[objs[i].vec], lists[objs[i].costs], lists[objs[i].feat] >>, N + 3)
                IN lists' = wb[1] /\ best' = wb[2]
             /\ objs' = Append(objs, Obj(objs[i].id, N + 1, N + 2, objs[i].signed, N + 3, "dict", "base", objs[i].pop, DictState(objs[i].state)))
             /\ counter' = counter + 1
ToFromJson(i) == /\ Step /\ Room /\ i \in DOMAIN objs
                 /\ LET wb == WithBest(objs[i].feat, lists \o << lists[objs[i].vec], lists[objs[i].costs], lists[objs[i].signed], lists[objs[i].feat] >>, N + 4)
                    IN lists' = wb[1] /\ best' = wb[2]
                 /\ objs' = Append(objs, Obj(objs[i].id, N + 1, N + 2, N + 3, N + 4, "dict", "base", objs[i].pop, DictState(objs[i].state)))
                 /\ counter' = counter + 1
\* a particle that took a non-particle's dictionary through sync has no 'best_vector' key: its copy() raises KeyError, the model does
\* not enable the step                                                                                       (named: ParticleWithoutBestKey)
CopySwarm(i) == /\ Step /\ Room /\ i \in DOMAIN objs /\ objs[i].cls = "swarm" /\ HasBestKey(objs[i].feat)
                /\ lists' = lists \o << lists[objs[i].vec], <<>>, <<>>, <<>> >>
                /\ objs' = Append(objs, Obj(counter, N + 1, N + 2, N + 3, N + 4, "ctor", "swarm", -1, "EMPTY"))
                /\ best' = ((N + 4) :> best[objs[i].feat]) @@ best
                /\ counter' = counter + 1
InitPbest(i) == /\ Step /\ i \in DOMAIN objs
                /\ best' = (objs[i].feat :> objs[i].vec) @@ best
                /\ UNCHANGED <<objs, lists, counter>>
SetVec(i, x) == /\ Step /\ i \in DOMAIN objs
                /\ lists' = [lists EXCEPT ![objs[i].vec] = [@ EXCEPT ![1] = x]]
                /\ UNCHANGED <<objs, counter>> /\ UNCHANGED best
SetCost(i, x) == /\ Step /\ i \in DOMAIN objs /\ Len(lists[objs[i].costs]) < 2
                 /\ lists' = [lists EXCEPT ![objs[i].costs] = Append(@, x)]
                 /\ UNCHANGED <<objs, counter>> /\ UNCHANGED best
SetSigned(i, x) == /\ Step /\ i \in DOMAIN objs /\ Len(lists[objs[i].signed]) < 2
                   /\ lists' = [lists EXCEPT ![objs[i].signed] = Append(@, x)]
                   /\ UNCHANGED <<objs, counter>> /\ UNCHANGED best
\* the features dictionary (one tracked key): every constructor call and every dictionary round trip makes a fresh one; only sync shares it
SetFeat(i, x) == /\ Step /\ i \in DOMAIN objs
                 /\ lists' = [lists EXCEPT ![objs[i].feat] = <<x>>]
                 /\ UNCHANGED <<objs, counter>> /\ UNCHANGED best
Next == \/ \E v \in Vals, c \in Classes : New(v, c)
        \/ \E i \in 1..MaxObjs : Copy(i) \/ CopyNsga(i) \/ ToFrom(i) \/ ToFromJson(i) \/ CopySwarm(i) \/ InitPbest(i)
        \/ \E a, b \in 1..MaxObjs : Sync(a, b)
        \/ \E i \in 1..MaxObjs, x \in Vals : SetVec(i, x) \/ SetCost(i, x) \/ SetSigned(i, x) \/ SetFeat(i, x)
Spec == Init /\ [][Next]_vars
\* ---- what the rest of the framework relies on ----
TypeOK == /\ \A i \in DOMAIN objs : {objs[i].vec, objs[i].costs, objs[i].signed, objs[i].feat} \subseteq DOMAIN lists
          /\ \A f \in DOMAIN best : f \in DOMAIN lists /\ best[f] \in DOMAIN lists \cup {0}
CounterAhead == \A i \in DOMAIN objs : objs[i].id < counter                                   \* a fresh id is never one in use
CtorIdsUnique == \A i, j \in DOMAIN objs : (i # j /\ objs[i].origin = "ctor" /\ objs[j].origin = "ctor") => objs[i].id # objs[j].id
\* a vector list is never the costs or signed list of anything (the three kinds of list never mix)
KindsApart == \A i, j \in DOMAIN objs : /\ objs[i].vec \notin {objs[j].costs, objs[j].signed, objs[j].feat}
                                         /\ objs[i].costs \notin {objs[j].signed, objs[j].feat} /\ objs[i].signed # objs[j].feat
\* ---- particles ----
\* a personal best is a vector-like list of its own kind: never anybody's costs, signed costs or dictionary
BestKind == \A f \in DOMAIN best : \A j \in DOMAIN objs : best[f] = 0 \/ best[f] \notin {objs[j].costs, objs[j].signed, objs[j].feat}
\* the generation loop's safety: the vector of a fresh particle copy is nobody's personal best, so moving the copy in place disturbs no best
CopyIsolatesPosition == [][ \A i \in 1..MaxObjs : CopySwarm(i) => \A f \in DOMAIN best' : best'[f] # objs'[Len(objs')].vec ]_vars
\* an in-place move changes the personal-best contents of exactly the dictionaries whose best is that very list
MoveReachesBestOnlyThroughAlias ==
   [][ \A i \in 1..MaxObjs, x \in Vals : SetVec(i, x) => \A f \in DOMAIN best : (best[f] # 0 /\ lists'[best[f]] # lists[best[f]]) => best[f] = objs[i].vec ]_vars
\* named deviation BestAliasesPosition, stated as the invariant a reader would expect -- TLC must REFUTE it (x03 checks that it does):
\* "the recorded personal best of a particle is a list other than its current position"
BestIsASnapshot == \A i \in DOMAIN objs : BestOf(objs[i].feat) # objs[i].vec
\* a particle always has the dictionary keys its own copy() needs -- also REFUTED (sync with a non-particle): ParticleWithoutBestKey
ParticlesCanBeCopied == \A i \in DOMAIN objs : objs[i].cls = "swarm" => HasBestKey(objs[i].feat)
\* feature dictionaries are shared only through sync: copies and round trips get their own (C07's parallel evaluation writes the
\* feasibility of a design into its features while other designs are in flight)
FeatSharedOnlyBySync ==
   [][ (\A a, b \in 1..MaxObjs : ~Sync(a, b)) =>
         \A i, j \in DOMAIN objs' : (i # j /\ objs'[i].feat = objs'[j].feat) => (i \in DOMAIN objs /\ j \in DOMAIN objs /\ objs[i].feat = objs[j].feat) ]_vars
\* vectors become shared only through sync: every other operation gives the new object a vector of its own
VecSharedOnlyBySync ==
   [][ (\A a, b \in 1..MaxObjs : ~Sync(a, b)) =>
         \A i, j \in DOMAIN objs' : (i # j /\ objs'[i].vec = objs'[j].vec) => (i \in DOMAIN objs /\ j \in DOMAIN objs /\ objs[i].vec = objs[j].vec) ]_vars
\* a stored and re-read design (JSON path) is isolated from the live one
JsonIsolates == [][ \A i \in 1..MaxObjs : ToFromJson(i) =>
                       LET n == Len(objs') IN \A j \in DOMAIN objs : {objs'[n].vec, objs'[n].costs, objs'[n].signed, objs'[n].feat} \cap {objs[j].vec, objs[j].costs, objs[j].signed, objs[j].feat} = {} ]_vars
=============================================================================
