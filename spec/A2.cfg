CONSTANTS M = 2
Vals = {0,1,2}
Marks = {0,1}
MaxAdds = 5
Comparator = "eps"
SPECIFICATION Spec
INVARIANT InvND
INVARIANT InvOnce
INVARIANT InvCovered
CHECK_DEADLOCK FALSE
