---- MODULE DominanceMarks ----
\* Dominance with negative / larger markers (a cfg file cannot contain negative numbers)
EXTENDS Dominance
MarksDef == {0, 1, -1, 2, -2}
====
