------------------------------- MODULE RunTrace -------------------------------
(* Validates whole recorded runs (Problem.populations() + the objective call log) and pop_acceptance calls.
   run(alg, n, g, nevalok, tags[int], gens[[member]], offs[[member]], single, unconstrained)     popaccept(pop, x, after, exc)  *)
EXTENDS RunOps, TLC, Json, IOUtils
Traces == JsonDeserialize(IOEnv.TRACE_FILE)
VARIABLES tid, l
Ev == Traces[tid][l]
\* diagnostic mode (ALLCLAUSES = "1", trace-mutation self-test only): a failing clause is reported and evaluation goes on, so that clauses
\* shadowed by an earlier one in the same conjunction are exercised too; in every registered check ALLCLAUSES = "0"
Clause(name, b) == IF b THEN TRUE ELSE PrintT(<<"FAIL", tid, l, name>>) /\ (IOEnv.ALLCLAUSES = "1")
FirstTag(e) == IF e.alg = "nsga2" THEN 1 ELSE 0
NGens(e) == IF e.alg = "nsga2" THEN e.g ELSE e.g + 1
RunEv(e) ==
    /\ Clause("no-exception", e.exc = "")
    /\ Clause("evaluation-budget", e.nevalok = e.n * NGens(e))
    /\ Clause("generation-tags", e.tags = [ i \in 1..NGens(e) |-> FirstTag(e) + i - 1 ])
    /\ Clause("generation-sizes", Len(e.gens) = NGens(e) /\ \A t \in DOMAIN e.gens : Len(e.gens[t]) = e.n)
    /\ Clause("unconstrained-designs-rank-alike",          \* without constraints no recorded design is preferred for its feasibility marker
              e.unconstrained => \A t, u \in DOMAIN e.gens : \A i \in DOMAIN e.gens[t], j \in DOMAIN e.gens[u] : e.gens[t][i].m = e.gens[u][j].m)
    /\ Clause("no-design-repeated-within-a-generation",
              e.alg = "nsga2" => \A t \in DOMAIN e.gens : t > 1 => Cardinality(MemberKeys(e.gens[t])) = Len(e.gens[t]))
    /\ Clause("nsga2-step-relation",
              e.alg = "nsga2" => \A t \in 1..(Len(e.gens) - 1) : StepOK(e.gens[t], e.offs[t + 1], e.gens[t + 1], e.n))
    /\ Clause("generational-elitism",
              e.alg = "nsga2" => \A t \in 1..(Len(e.gens) - 1) : ElitistStep(e.gens[t], e.gens[t + 1]))
    /\ Clause("best-cost-never-worse",
              (e.alg = "nsga2" /\ e.single /\ e.unconstrained) => \A t \in 1..(Len(e.gens) - 1) : BestCost(e.gens[t + 1]) <= BestCost(e.gens[t]))
\* Extension (not a listed property): PSOGA as it actually behaves -- named deviation "GrowingSwarm": every generation appends the two
\* GA offspring to the swarm, so generation t (0..G) has N + 2t members and the run spends N + sum_{t=1..G} (N + 2t) evaluations
PsogaEv(e) ==
    /\ Clause("no-exception", e.exc = "")
    /\ Clause("psoga-generation-tags", e.tags = [ i \in 1..(e.g + 1) |-> i - 1 ])
    /\ Clause("psoga-generation-sizes", e.sizes = [ i \in 1..(e.g + 1) |-> e.n + 2 * (i - 1) ])
    /\ Clause("psoga-evaluation-budget", e.nevalok = e.n + e.g * e.n + e.g * (e.g + 1))
PopAcceptEv(e) ==
    /\ Clause("no-exception", e.exc = "")
    /\ Clause("population-keeps-its-size", Len(e.after) = Len(e.pop))
    /\ Clause("steady-state-acceptance", PopAcceptOK(e.pop, e.x, e.after))
TInit == tid \in 1..Len(Traces) /\ l = 1
TNext == /\ l <= Len(Traces[tid])
         /\ CASE Ev.ev = "run"       -> RunEv(Ev)
              [] Ev.ev = "popaccept" -> PopAcceptEv(Ev)
              [] Ev.ev = "psoga"     -> PsogaEv(Ev)
              [] OTHER -> Clause("known-event", FALSE)
         /\ l' = l + 1 /\ UNCHANGED tid
TDone == l = Len(Traces[tid]) + 1
TReport == TDone => PrintT(<<"ACCEPT", tid>>)
=============================================================================
