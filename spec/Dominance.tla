---- MODULE Dominance ----
EXTENDS Integers, Sequences, FiniteSets
CONSTANTS M, Vals, Marks
Idx == 1..M
Vec == [c : [Idx -> Vals], m : Marks]
Abs(x) == IF x < 0 THEN -x ELSE x
NoWorse(p, q) == \A i \in Idx : p.c[i] <= q.c[i]
Better(p, q)  == NoWorse(p, q) /\ \E i \in Idx : p.c[i] < q.c[i]
\* marker precedence exactly as coded: 0 wins, then smaller |marker|; equal |marker| falls through
MarkCmp(p, q) == IF p.m = q.m THEN 0
                 ELSE IF p.m = 0 THEN 1 ELSE IF q.m = 0 THEN 2
                 ELSE IF Abs(p.m) < Abs(q.m) THEN 1 ELSE IF Abs(q.m) < Abs(p.m) THEN 2 ELSE 0
ParetoCmp(p, q) == IF MarkCmp(p, q) # 0 THEN MarkCmp(p, q)
                   ELSE IF Better(p, q) THEN 1 ELSE IF Better(q, p) THEN 2 ELSE 0
\* the coded scan: flags and early exit
RECURSIVE ScanFrom(_, _, _, _, _)
ScanFrom(p, q, i, dp, dq) ==
  IF i > M THEN (IF dp = dq THEN 0 ELSE IF dp THEN 1 ELSE 2)
  ELSE IF p.c[i] > q.c[i] THEN (IF dp THEN 0 ELSE ScanFrom(p, q, i + 1, dp, TRUE))
  ELSE IF q.c[i] > p.c[i] THEN (IF dq THEN 0 ELSE ScanFrom(p, q, i + 1, TRUE, dq))
  ELSE ScanFrom(p, q, i + 1, dp, dq)
ParetoScan(p, q) == IF MarkCmp(p, q) # 0 THEN MarkCmp(p, q) ELSE ScanFrom(p, q, 1, FALSE, FALSE)
\* epsilon comparator (positive epsilons): set of admissible verdicts
EpsCmp(p, q) == IF MarkCmp(p, q) # 0 THEN {MarkCmp(p, q)}
                ELSE IF p.c = q.c THEN {1, 2} ELSE {ParetoCmp(p, q)}
====
