------------------------------ MODULE Dominance ------------------------------
(* C01 -- design model of ParetoDominance.compare at the grain of the code: feasibility precedence, then one
   loop iteration per action with the two flags and the early exit; checked against the textbook definition.
   The order laws are checked over the whole bounded domain (and proved for arbitrary index sets in
   proofs/DominanceLaws.tla with TLAPS).                                                                     *)
EXTENDS DominanceOps, TLC
CONSTANTS M, Vals, Marks
Vec == [c : [1..M -> Vals], m : Marks]
VARIABLES p, q, i, dp, dq, res
vars == <<p, q, i, dp, dq, res>>
Init == p \in Vec /\ q \in Vec /\ i = 0 /\ dp = FALSE /\ dq = FALSE /\ res = -1
Feasibility ==          \* "if p[-1] != q[-1]: ..." -- may decide at once
    /\ i = 0 /\ res = -1
    /\ IF MarkCmp(p, q) # 0 THEN res' = MarkCmp(p, q) /\ i' = i ELSE res' = res /\ i' = 1
    /\ UNCHANGED <<p, q, dp, dq>>
StepWorse ==            \* p_costs > q_costs
    /\ res = -1 /\ i \in 1..M /\ p.c[i] > q.c[i]
    /\ IF dp THEN res' = 0 /\ UNCHANGED <<i, dq>> ELSE dq' = TRUE /\ i' = i + 1 /\ res' = res
    /\ UNCHANGED <<p, q, dp>>
StepBetter ==           \* q_costs > p_costs
    /\ res = -1 /\ i \in 1..M /\ q.c[i] > p.c[i]
    /\ IF dq THEN res' = 0 /\ UNCHANGED <<i, dp>> ELSE dp' = TRUE /\ i' = i + 1 /\ res' = res
    /\ UNCHANGED <<p, q, dq>>
StepEqual ==
    /\ res = -1 /\ i \in 1..M /\ p.c[i] = q.c[i]
    /\ i' = i + 1 /\ UNCHANGED <<p, q, dp, dq, res>>
Finish ==
    /\ res = -1 /\ i = M + 1
    /\ res' = (IF dp = dq THEN 0 ELSE IF dp THEN 1 ELSE 2)
    /\ UNCHANGED <<p, q, i, dp, dq>>
Next == Feasibility \/ StepWorse \/ StepBetter \/ StepEqual \/ Finish
Spec == Init /\ [][Next]_vars
\* ---- properties ----
ScanIsDefinition == res # -1 => res = ParetoCmp(p, q)
ScanOpIsDefinition == ParetoScan(p, q) = ParetoCmp(p, q)          \* the recursive operator used elsewhere
FlagsSound == /\ dp => \E k \in 1..M : p.c[k] < q.c[k]
              /\ dq => \E k \in 1..M : q.c[k] < p.c[k]
EpsAgrees == /\ EpsCmp(p, q) # {}
             /\ (p.c # q.c => EpsCmp(p, q) = {ParetoCmp(p, q)})
             /\ (p = q => 0 \notin EpsCmp(p, q))
Irreflexive   == \A x \in Vec : ParetoCmp(x, x) = 0
Antisymmetric == \A x, y \in Vec : ParetoCmp(y, x) = Swap(ParetoCmp(x, y))
Transitive    == \A x, y, z \in Vec : (Dominates(x, y) /\ Dominates(y, z)) => Dominates(x, z)
ASSUME Irreflexive
ASSUME Antisymmetric
ASSUME Transitive
=============================================================================
