--------------------------- MODULE DominanceTrace ---------------------------
(* Validates observed verdicts of ParetoDominance.compare / EpsilonDominance.compare (rank-abstracted vectors of any
   length) against DominanceOps, and the three order laws on the observed verdicts of each triple.            *)
EXTENDS DominanceOps, TLC, Json, IOUtils
Traces == JsonDeserialize(IOEnv.TRACE_FILE)
VARIABLES tid, l
Ev == Traces[tid][l]
\* diagnostic mode (ALLCLAUSES = "1", trace-mutation self-test only): a failing clause is reported and evaluation goes on, so that clauses
\* shadowed by an earlier one in the same conjunction are exercised too; in every registered check ALLCLAUSES = "0"
Clause(name, b) == IF b THEN TRUE ELSE PrintT(<<"FAIL", tid, l, name>>) /\ (IOEnv.ALLCLAUSES = "1")
CmpOK(e) ==
    /\ Clause("no-exception", e.exc = "")
    /\ Clause("same-length", Len(e.p.c) = Len(e.q.c))
    /\ IF e.kind = "pareto"
       THEN /\ Clause("pareto-verdict", e.v = ParetoCmp(e.p, e.q))
            /\ Clause("scan-equals-definition", ParetoScan(e.p, e.q) = ParetoCmp(e.p, e.q))
       ELSE /\ Clause("eps-verdict", e.v \in EpsCmp(e.p, e.q))
            /\ Clause("eps-names-a-loser-for-identical", (e.p = e.q) => e.v \in {1, 2})
\* observed verdicts of one triple: pp, pq, qp, qr, pr
LawsOK(e) ==
    /\ Clause("irreflexive", e.pp = 0)
    /\ Clause("antisymmetric", e.qp = Swap(e.pq))
    /\ Clause("transitive", (e.pq = 1 /\ e.qr = 1) => e.pr = 1)
    /\ Clause("transitive-reverse", (e.pq = 2 /\ e.qr = 2) => e.pr = 2)
TInit == tid \in 1..Len(Traces) /\ l = 1
TNext == /\ l <= Len(Traces[tid])
         /\ CASE Ev.ev = "cmp"  -> CmpOK(Ev)
              [] Ev.ev = "laws" -> LawsOK(Ev)
              [] OTHER -> Clause("known-event", FALSE)
         /\ l' = l + 1 /\ UNCHANGED tid
TDone == l = Len(Traces[tid]) + 1
TReport == TDone => PrintT(<<"ACCEPT", tid>>)
=============================================================================
