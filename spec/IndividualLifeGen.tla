--------------------------- MODULE IndividualLifeGen ---------------------------
(* Behaviours of IndividualLife as operation scripts for the real artap.individual classes. *)
EXTENDS IndividualLife, Json
VARIABLE hist
Op(op, i, j, x, c) == [op |-> op, i |-> i, j |-> j, x |-> x, cls |-> c]
GInit == Init /\ hist = <<>>
GNext == \/ \E v \in Vals, c \in Classes : New(v, c) /\ hist' = Append(hist, Op("new", 0, 0, v, c))
         \/ \E i \in 1..MaxObjs : \/ Copy(i) /\ hist' = Append(hist, Op("copy", i, 0, 0, ""))
                                  \/ CopyNsga(i) /\ hist' = Append(hist, Op("copynsga", i, 0, 0, ""))
                                  \/ ToFrom(i) /\ hist' = Append(hist, Op("tofrom", i, 0, 0, ""))
                                  \/ ToFromJson(i) /\ hist' = Append(hist, Op("tofromjson", i, 0, 0, ""))
                                  \/ CopySwarm(i) /\ hist' = Append(hist, Op("copyswarm", i, 0, 0, ""))
                                  \/ InitPbest(i) /\ hist' = Append(hist, Op("initpbest", i, 0, 0, ""))
         \/ \E a, b \in 1..MaxObjs : Sync(a, b) /\ hist' = Append(hist, Op("sync", a, b, 0, ""))
         \/ \E i \in 1..MaxObjs, x \in Vals : \/ SetVec(i, x) /\ hist' = Append(hist, Op("setvec", i, 0, x, ""))
                                              \/ SetCost(i, x) /\ hist' = Append(hist, Op("setcost", i, 0, x, ""))
                                              \/ SetSigned(i, x) /\ hist' = Append(hist, Op("setsigned", i, 0, x, ""))
                                              \/ SetFeat(i, x) /\ hist' = Append(hist, Op("setfeat", i, 0, x, ""))
Emit == (nops = MaxOps) => PrintT(<<"BEH", ToJson(hist)>>)
=============================================================================
