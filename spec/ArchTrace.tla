---- MODULE ArchTrace ----
EXTENDS Naturals, Sequences, FiniteSets, TLC, Json, IOUtils, SequencesExt
Traces == JsonDeserialize(IOEnv.TRACE_FILE)
NT == Len(Traces)
VARIABLES tid, l, offered, contents
vars == <<tid, l, offered, contents>>
Dominates(p,q) == /\ \A i \in DOMAIN p : p[i] <= q[i]
                  /\ \E i \in DOMAIN p : p[i] < q[i]
ND(S) == { x \in S : ~ \E y \in S : Dominates(y, x) }
Init == /\ tid \in 1..NT /\ l = 1 /\ offered = {} /\ contents = {}
Step == /\ l <= Len(Traces[tid])
        /\ LET e == Traces[tid][l] IN
           /\ e.ev = "add"
           /\ offered' = offered \cup {e.x}
           /\ contents' = ND(offered')
           /\ e.res = ((e.x \in contents') /\ (e.x \notin offered))
           /\ { e.after[i] : i \in DOMAIN e.after } = contents'
        /\ l' = l + 1 /\ UNCHANGED tid
Next == Step
Spec == Init /\ [][Next]_vars
Done == l = Len(Traces[tid]) + 1
Report == Done => PrintT(<<"ACCEPT", tid>>)
Inv == Report
====
