----------------------------- MODULE ResultsOps -----------------------------
(* C17 -- the result queries of artap.results.Results and the two quality indicators, as definitions over the recorded
   list `recs` (sequence of [k |-> key, tag |-> generation tag, vec |-> parameters, costs |-> costs], recording order). *)
EXTENDS Integers, Sequences, FiniteSets, FiniteSetsExt, SequencesExt
SeqRange(s) == { s[i] : i \in DOMAIN s }
LastTag(recs) == Max({ recs[i].tag : i \in DOMAIN recs })
PopIdx(recs, t) == SelectSeq([ i \in DOMAIN recs |-> i ], LAMBDA i : recs[i].tag = t)      \* indices, recording order
Population(recs, t) == LET idx == PopIdx(recs, t) IN [ j \in DOMAIN idx |-> recs[idx[j]] ]
TagOrLast(recs, t) == IF t = -1 THEN LastTag(recs) ELSE t
BagOf(s) == [ e \in SeqRange(s) |-> Cardinality({ i \in DOMAIN s : s[i] = e }) ]
SameBag(s, t) == Len(s) = Len(t) /\ BagOf(s) = BagOf(t)
IsOptimum(recs, i, c, dir) == /\ i \in DOMAIN recs
                              /\ IF dir = "min" THEN \A j \in DOMAIN recs : recs[i].costs[c] <= recs[j].costs[c]
                                                ELSE \A j \in DOMAIN recs : recs[i].costs[c] >= recs[j].costs[c]
PairsOf(pop, p, c) == [ j \in DOMAIN pop |-> <<pop[j].vec[p], pop[j].costs[c]>> ]
ZipP(xs, ys) == [ j \in DOMAIN xs |-> <<xs[j], ys[j]>> ]
NonDecreasing(xs) == \A j \in 1..(Len(xs) - 1) : xs[j] <= xs[j + 1]
\* x-values first, y-values second: pairing kept, sorted by x on request, population order otherwise
ListingOK(pairs, xs, ys, sorted) ==
   /\ Len(xs) = Len(ys)
   /\ SameBag(ZipP(xs, ys), pairs)
   /\ (sorted => NonDecreasing(xs))
   /\ (~sorted => ZipP(xs, ys) = pairs)
\* ---- indicators on integer point sets (sequences of points, points = sequences of integers) ----
MaxDiff(r, q) == Max({ q[i] - r[i] : i \in DOMAIN r })
EpsAdd(ref, comp) == Max({0} \cup { Min({ MaxDiff(ref[a], comp[b]) : b \in DOMAIN comp }) : a \in DOMAIN ref })
SqDist(p, q) == LET RECURSIVE s(_)
                    s(i) == IF i > Len(p) THEN 0 ELSE (p[i] - q[i]) * (p[i] - q[i]) + s(i + 1)
                IN s(1)
NearestSq(q, ref) == Min({ SqDist(q, ref[a]) : a \in DOMAIN ref })
\* integer square root (floor) by bisection
RECURSIVE ISqrtB(_, _, _)
ISqrtB(n, lo, hi) == IF lo >= hi THEN lo
                     ELSE LET mid == (lo + hi + 1) \div 2 IN
                          IF mid * mid <= n THEN ISqrtB(n, mid, hi) ELSE ISqrtB(n, lo, mid - 1)
ISqrt(n) == ISqrtB(n, 0, 46340)
=============================================================================
