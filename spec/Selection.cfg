CONSTANTS M = 2
Vals = {0,1,2,3}
Marks = {0,1}
MaxN = 3
SPECIFICATION Spec
INVARIANT RefTruncSound
INVARIANT TruncImpliesElitist
INVARIANT ExactInRange
CHECK_DEADLOCK FALSE
