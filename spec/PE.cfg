CONSTANTS NDesigns = 3
NWorkers = 2
MaxAttempts = 5
Faults = {}
SPECIFICATION Spec
INVARIANT AtMostOnceOnEvaluated
INVARIANT AttemptBound
INVARIANT FailedAccounting
INVARIANT Pairing
INVARIANT RowsFinal
INVARIANT SerialEquivalent
INVARIANT ExactlyOnceNoFaults
INVARIANT RaiseLaw
INVARIANT NotMarkedOnFatal
CHECK_DEADLOCK FALSE
