--------------------------- MODULE SurrogateTrace ---------------------------
(* Validates recorded request sequences of a real surrogate object by replaying the SAME Request action of Surrogate and
   comparing every observable after every request.
   config(ts, mode, trained)   request(accept, kind, returned_true, evalcnt, predcnt, ndata, trains, objcalls, trained, pair_ok) *)
EXTENDS Surrogate, Json, IOUtils
Traces == JsonDeserialize(IOEnv.TRACE_FILE)
VARIABLES tid, l
Ev == Traces[tid][l]
\* diagnostic mode (ALLCLAUSES = "1", trace-mutation self-test only): a failing clause is reported and evaluation goes on, so that clauses
\* shadowed by an earlier one in the same conjunction are exercised too; in every registered check ALLCLAUSES = "0"
Clause(name, b) == IF b THEN TRUE ELSE PrintT(<<"FAIL", tid, l, name>>) /\ (IOEnv.ALLCLAUSES = "1")
ConfigEv(e) == /\ Clause("config-first", l = 1)
               /\ ts' = e.ts /\ mode' = e.mode /\ trained' = e.trained
               /\ xs' = [ i \in 1..e.pre |-> 0 ]        \* a model warm-started from e.pre stored designs: training pairs, but no requests yet
               /\ UNCHANGED <<ec, pc, trains, objcalls, nreq, lastkind>>
RequestEv(e) ==
    /\ Clause("no-exception", e.exc = "")
    /\ Request(e.accept)
    /\ Clause("prediction-only-when-trained-and-accepted", (e.kind = "predict") = (lastkind' = "predict"))
    /\ Clause("true-value-returned-unchanged", lastkind' = "eval" => e.returned_true)
    /\ Clause("prediction-returned", lastkind' = "predict" => e.returned_pred)
    /\ Clause("evaluation-counter", e.evalcnt = ec')
    /\ Clause("prediction-counter", e.predcnt = pc')
    /\ Clause("counters-add-up", e.evalcnt + e.predcnt = nreq')
    /\ Clause("objective-called-once-per-true-evaluation", e.objcalls = objcalls')
    /\ Clause("training-set-size", mode = "predict" => e.ndata = Len(xs'))
    /\ Clause("training-pair-appended-in-order", e.pair_ok)
    /\ Clause("retrained-exactly-at-every-train-step", e.trains = trains')
    /\ Clause("trained-flag", e.trained = trained')
\* a true evaluation that FAILS (the objective raises; Job.evaluate will retry with another design): the objective was called, but nothing was
\* answered -- no counter moves, nothing joins the training set, no training happens
FailedEv(e) ==
    /\ Clause("failure-is-the-objective's", e.exc # "")
    /\ Clause("failed-evaluation-not-counted", e.evalcnt = ec /\ e.predcnt = pc)
    /\ Clause("failed-evaluation-adds-no-training-pair", mode = "predict" => e.ndata = Len(xs))
    /\ Clause("failed-evaluation-trains-nothing", e.trains = trains /\ e.trained = trained)
    /\ objcalls' = objcalls + 1
    /\ UNCHANGED <<ts, mode, trained, ec, pc, xs, trains, nreq, lastkind>>
TInit == tid \in 1..Len(Traces) /\ l = 1 /\ ts = 0 /\ mode = "predict" /\ trained = FALSE
         /\ ec = 0 /\ pc = 0 /\ xs = <<>> /\ trains = 0 /\ objcalls = 0 /\ nreq = 0 /\ lastkind = "none"
TNext == /\ l <= Len(Traces[tid])
         /\ CASE Ev.ev = "config"  -> ConfigEv(Ev)
              [] Ev.ev = "request" -> RequestEv(Ev)
              [] Ev.ev = "failed"  -> FailedEv(Ev)
              [] OTHER -> Clause("known-event", FALSE) /\ UNCHANGED vars
         /\ l' = l + 1 /\ UNCHANGED tid
TDone == l = Len(Traces[tid]) + 1
TReport == TDone => PrintT(<<"ACCEPT", tid>>)
=============================================================================
