---------------------------- MODULE SurrogateInd ----------------------------
(* Apalache side-car for C19: the counter laws of Surrogate.tla as an INDUCTIVE invariant, i.e. for request sequences of ANY length
   (TLC checks them up to 7-10 requests).  Same Request action as Surrogate.tla, typed for Apalache, training set abstracted to its
   length, train step fixed per run (TS is substituted by the wrapper modules / --cinit).
     apalache-mc check --init=IndInit --inv=IndInv --length=1 SurrogateInd.tla    (IndInv /\ Next => IndInv')
     apalache-mc check --init=Init    --inv=IndInv --length=0 SurrogateInd.tla    (Init => IndInv)                                  *)
EXTENDS Integers
CONSTANT
    \* @type: Int;
    TS
VARIABLES
    \* @type: Str;
    mode,
    \* @type: Bool;
    trained,
    \* @type: Int;
    ec,
    \* @type: Int;
    pc,
    \* @type: Int;
    nx,
    \* @type: Int;
    trains,
    \* @type: Int;
    objcalls,
    \* @type: Int;
    nreq,
    \* @type: Int;
    rem
\* rem = ec mod TS is carried explicitly so that the invariant stays linear (no division by a symbolic value)
ConstInit == TS \in {0, 1, 2, 3, 5, 7}
Init == /\ mode \in {"predict", "eval"} /\ trained \in BOOLEAN
        /\ (mode = "eval" => trained /\ TS = 0)
        /\ ec = 0 /\ pc = 0 /\ nx = 0 /\ trains = 0 /\ objcalls = 0 /\ nreq = 0 /\ rem = 0
TrainsNow == TS # 0 /\ rem + 1 = TS
Request(accept) ==
  /\ nreq' = nreq + 1
  /\ IF mode = "eval"
     THEN /\ ec' = ec + 1 /\ objcalls' = objcalls + 1
          /\ UNCHANGED <<mode, trained, pc, nx, trains, rem>>
     ELSE IF trained /\ accept
     THEN /\ pc' = pc + 1
          /\ UNCHANGED <<mode, trained, ec, nx, trains, objcalls, rem>>
     ELSE /\ ec' = ec + 1 /\ objcalls' = objcalls + 1 /\ nx' = nx + 1
          /\ trains' = trains + (IF TrainsNow THEN 1 ELSE 0)
          /\ rem' = (IF TS = 0 THEN 0 ELSE IF TrainsNow THEN 0 ELSE rem + 1)
          /\ trained' = (trained \/ TrainsNow)
          /\ UNCHANGED <<mode, pc>>
Next == \E a \in BOOLEAN : Request(a)
\* the inductive invariant: every listed counter law, for any number of requests
IndInv == /\ mode \in {"predict", "eval"}
          /\ ec >= 0 /\ pc >= 0 /\ nreq >= 0 /\ trains >= 0
          /\ ec + pc = nreq                                   \* counters add up
          /\ objcalls = ec                                    \* one objective call per true evaluation
          /\ (mode = "predict" => nx = ec)                    \* one training pair per true evaluation
          /\ (mode = "eval" => pc = 0 /\ trains = 0 /\ TS = 0)
          /\ (TS = 0 => trains = 0 /\ rem = 0)
          /\ (TS # 0 /\ mode = "predict" => (rem >= 0 /\ rem < TS /\ ec = trains * TS + rem))     \* retrained exactly at every TS-th true evaluation
          /\ (pc > 0 => trained)                              \* a prediction was only ever used by a trained model
IndInit == /\ mode \in {"predict", "eval"} /\ trained \in BOOLEAN
           /\ ec \in Int /\ pc \in Int /\ nx \in Int /\ trains \in Int /\ objcalls \in Int /\ nreq \in Int /\ rem \in Int
           /\ IndInv
=============================================================================
