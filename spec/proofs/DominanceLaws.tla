--------------------------- MODULE DominanceLaws ---------------------------
(* TLAPS side-car for C01: the order laws of constrained Pareto dominance for ARBITRARY index sets and integer costs
   (TLC checks them only over the bounded domain of Dominance.tla).  Same definitions as DominanceOps, with the cost
   vector as a function over an arbitrary index set Idx.                                                        *)
EXTENDS Integers, TLAPS
CONSTANT Idx
Sol == [c : [Idx -> Int], m : Int]
AbsV(x) == IF x < 0 THEN -x ELSE x
NoWorse(p, q) == \A i \in Idx : p.c[i] <= q.c[i]
Better(p, q)  == NoWorse(p, q) /\ \E i \in Idx : p.c[i] < q.c[i]
MarkCmp(p, q) == IF p.m = q.m THEN 0
                 ELSE IF p.m = 0 THEN 1 ELSE IF q.m = 0 THEN 2
                 ELSE IF AbsV(p.m) < AbsV(q.m) THEN 1 ELSE IF AbsV(q.m) < AbsV(p.m) THEN 2 ELSE 0
ParetoCmp(p, q) == IF MarkCmp(p, q) # 0 THEN MarkCmp(p, q)
                   ELSE IF Better(p, q) THEN 1 ELSE IF Better(q, p) THEN 2 ELSE 0
Dominates(p, q) == ParetoCmp(p, q) = 1

THEOREM BetterIrreflexive == \A p \in Sol : ~Better(p, p)
  BY DEF Better, NoWorse, Sol
THEOREM BetterAsymmetric == \A p, q \in Sol : Better(p, q) => ~Better(q, p)
  BY DEF Better, NoWorse, Sol
THEOREM BetterTransitive == \A p, q, r \in Sol : Better(p, q) /\ Better(q, r) => Better(p, r)
  BY DEF Better, NoWorse, Sol
THEOREM MarkCmpSwap == \A p, q \in Sol : /\ MarkCmp(p, q) = 1 <=> MarkCmp(q, p) = 2
                                         /\ MarkCmp(p, q) = 0 <=> MarkCmp(q, p) = 0
  BY DEF MarkCmp, AbsV, Sol
THEOREM Irreflexive == \A p \in Sol : ParetoCmp(p, p) = 0
  BY DEF ParetoCmp, MarkCmp, Better, NoWorse, Sol
THEOREM Antisymmetric == \A p, q \in Sol : (ParetoCmp(p, q) = 1 <=> ParetoCmp(q, p) = 2) /\ (ParetoCmp(p, q) = 0 <=> ParetoCmp(q, p) = 0)
  BY BetterAsymmetric, MarkCmpSwap DEF ParetoCmp, MarkCmp, AbsV, Better, NoWorse, Sol
THEOREM MarkTransitive == \A p, q, r \in Sol :
            /\ (MarkCmp(p, q) = 1 /\ MarkCmp(q, r) = 1) => MarkCmp(p, r) = 1
            /\ (MarkCmp(p, q) = 1 /\ MarkCmp(q, r) = 0) => MarkCmp(p, r) = 1
            /\ (MarkCmp(p, q) = 0 /\ MarkCmp(q, r) = 1) => MarkCmp(p, r) = 1
            /\ (MarkCmp(p, q) = 0 /\ MarkCmp(q, r) = 0) => MarkCmp(p, r) = 0
  BY DEF MarkCmp, AbsV, Sol
THEOREM Transitive == \A p, q, r \in Sol : (Dominates(p, q) /\ Dominates(q, r)) => Dominates(p, r)
<1> SUFFICES ASSUME NEW p \in Sol, NEW q \in Sol, NEW r \in Sol, Dominates(p, q), Dominates(q, r)
             PROVE Dominates(p, r)
    OBVIOUS
<1>1. MarkCmp(p, q) \in {0, 1, 2} /\ MarkCmp(q, r) \in {0, 1, 2}
    BY DEF MarkCmp
<1>2. MarkCmp(p, q) # 2 /\ MarkCmp(q, r) # 2
    BY DEF Dominates, ParetoCmp
<1>3. CASE MarkCmp(p, q) = 1 \/ MarkCmp(q, r) = 1
    <2>1. MarkCmp(p, r) = 1
        BY <1>1, <1>2, <1>3, MarkTransitive
    <2> QED BY <2>1 DEF Dominates, ParetoCmp
<1>4. CASE MarkCmp(p, q) = 0 /\ MarkCmp(q, r) = 0
    <2>1. MarkCmp(p, r) = 0
        BY <1>4, MarkTransitive
    <2>2. Better(p, q) /\ Better(q, r)
        BY <1>4 DEF Dominates, ParetoCmp
    <2>3. Better(p, r)
        BY <2>2, BetterTransitive
    <2> QED BY <2>1, <2>3 DEF Dominates, ParetoCmp
<1> QED BY <1>1, <1>2, <1>3, <1>4
=============================================================================
