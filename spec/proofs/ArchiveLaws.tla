---------------------------- MODULE ArchiveLaws ----------------------------
(* TLAPS side-car for C04: the archive's insertion rule keeps "content = the non-dominated elements of everything offered so far" as
   an INDUCTIVE invariant -- for an arbitrary universe of solutions, arbitrary (also infinite) sets, and any relation Dom that is
   irreflexive and transitive (DominanceLaws proves both for constrained Pareto dominance over arbitrary index sets).
   TLC checks the same statements only for histories of <= 4-6 additions over 18 vectors (Archive.tla); here they hold for every
   history length, which is the "order of the additions does not matter" clause of C04 in full.                              *)
EXTENDS TLAPS
CONSTANT U, Dom(_, _)
ASSUME DomIrreflexive == \A x \in U : ~Dom(x, x)
ASSUME DomTransitive  == \A x, y, z \in U : (Dom(x, y) /\ Dom(y, z)) => Dom(x, z)

NDInsert(S, x) == IF \E y \in S : Dom(y, x) \/ y = x THEN S
                  ELSE { y \in S : ~Dom(x, y) } \cup {x}
MutuallyND(S)  == \A a, b \in S : ~Dom(a, b)
NonDominated(O) == { o \in O : \A p \in O : ~Dom(p, o) }
\* every offered solution is a member or dominated by a member (true of every finite history; part of the invariant)
Covered(S, O)  == \A o \in O : o \in S \/ \E s \in S : Dom(s, o)
Inv(S, O)      == S \subseteq U /\ O \subseteq U /\ S = NonDominated(O) /\ Covered(S, O)

THEOREM InsertStaysInside == \A S, x : NDInsert(S, x) \subseteq S \cup {x}
  BY DEF NDInsert

THEOREM InsertKeepsMutualND ==
    ASSUME NEW S \in SUBSET U, NEW x \in U, MutuallyND(S)
    PROVE  MutuallyND(NDInsert(S, x))
<1>1. CASE \E y \in S : Dom(y, x) \/ y = x
    BY <1>1 DEF NDInsert
<1>2. CASE ~(\E y \in S : Dom(y, x) \/ y = x)
    <2>1. NDInsert(S, x) = { y \in S : ~Dom(x, y) } \cup {x}
        BY <1>2 DEF NDInsert
    <2>2. \A a, b \in { y \in S : ~Dom(x, y) } \cup {x} : ~Dom(a, b)
        BY <1>2, DomIrreflexive DEF MutuallyND
    <2> QED BY <2>1, <2>2 DEF MutuallyND
<1> QED BY <1>1, <1>2

\* whatever is refused or evicted is dominated by, or equal to, a current member
THEOREM RejectedAreDominatedOrEqual ==
    ASSUME NEW S \in SUBSET U, NEW x \in U
    PROVE  \A z \in S \cup {x} : z \in NDInsert(S, x) \/ \E s \in NDInsert(S, x) : Dom(s, z) \/ s = z
<1>1. CASE \E y \in S : Dom(y, x) \/ y = x
    BY <1>1 DEF NDInsert
<1>2. CASE ~(\E y \in S : Dom(y, x) \/ y = x)
    <2>1. NDInsert(S, x) = { y \in S : ~Dom(x, y) } \cup {x}
        BY <1>2 DEF NDInsert
    <2> QED BY <2>1
<1> QED BY <1>1, <1>2

\* the inductive step: content = non-dominated part of everything offered, whatever the order of the offers
THEOREM InsertPreservesInv ==
    ASSUME NEW S, NEW O, NEW x \in U, Inv(S, O)
    PROVE  Inv(NDInsert(S, x), O \cup {x})
<1> USE DEF Inv
<1>a. S \subseteq U /\ O \subseteq U /\ S = NonDominated(O) /\ Covered(S, O)
    OBVIOUS
<1>1. CASE \E y \in S : Dom(y, x) \/ y = x
    <2>1. NDInsert(S, x) = S
        BY <1>1 DEF NDInsert
    <2>2. PICK y \in S : Dom(y, x) \/ y = x
        BY <1>1
    <2>3. y \in O /\ \A p \in O : ~Dom(p, y)
        BY <1>a, <2>2 DEF NonDominated
    <2>4. ~Dom(x, y)
        BY <2>2, <2>3, DomIrreflexive, DomTransitive, <1>a
    <2>5. \A o \in O : (\A p \in O : ~Dom(p, o)) => ~Dom(x, o)
        <3> SUFFICES ASSUME NEW o \in O, \A p \in O : ~Dom(p, o), Dom(x, o) PROVE FALSE
            OBVIOUS
        <3>1. CASE y = x
            BY <3>1, <2>3
        <3>2. CASE Dom(y, x)
            <4>1. Dom(y, o)
                BY <3>2, DomTransitive, <1>a, <2>2
            <4> QED BY <4>1, <2>3
        <3> QED BY <3>1, <3>2, <2>2
    <2>6. NonDominated(O \cup {x}) = NonDominated(O)
        <3>1. CASE y = x
            BY <3>1, <2>3, <2>5, DomIrreflexive DEF NonDominated
        <3>2. CASE Dom(y, x) /\ y # x
            BY <3>2, <2>3, <2>5 DEF NonDominated
        <3> QED BY <3>1, <3>2, <2>2
    <2>7. Covered(S, O \cup {x})
        BY <1>a, <2>2 DEF Covered
    <2> QED BY <2>1, <2>6, <2>7, <1>a
<1>2. CASE ~(\E y \in S : Dom(y, x) \/ y = x)
    <2>1. NDInsert(S, x) = { y \in S : ~Dom(x, y) } \cup {x}
        BY <1>2 DEF NDInsert
    <2>2. \A p \in O : ~Dom(p, x)
        <3> SUFFICES ASSUME NEW p \in O, Dom(p, x) PROVE FALSE
            OBVIOUS
        <3>1. p \in S \/ \E s \in S : Dom(s, p)
            BY <1>a DEF Covered
        <3>2. CASE p \in S
            BY <3>2, <1>2
        <3>3. CASE \E s \in S : Dom(s, p)
            <4>1. PICK s \in S : Dom(s, p)
                BY <3>3
            <4>2. Dom(s, x)
                BY <4>1, DomTransitive, <1>a
            <4> QED BY <4>2, <1>2
        <3> QED BY <3>1, <3>2, <3>3
    <2>3. x \notin O
        BY <1>2, <1>a, <2>2 DEF Covered
    <2>4. NonDominated(O \cup {x}) = { y \in S : ~Dom(x, y) } \cup {x}
        BY <1>a, <2>2, DomIrreflexive DEF NonDominated
    <2>5. Covered({ y \in S : ~Dom(x, y) } \cup {x}, O \cup {x})
        <3> SUFFICES ASSUME NEW o \in O \cup {x}
                     PROVE  o \in { y \in S : ~Dom(x, y) } \cup {x} \/ \E s \in { y \in S : ~Dom(x, y) } \cup {x} : Dom(s, o)
            BY DEF Covered
        <3>1. CASE o = x
            BY <3>1
        <3>2. CASE o \in O /\ o \in S
            BY <3>2
        <3>3. CASE o \in O /\ \E s \in S : Dom(s, o)
            <4>1. PICK s \in S : Dom(s, o)
                BY <3>3
            <4>2. CASE Dom(x, s)
                BY <4>1, <4>2, DomTransitive, <1>a
            <4>3. CASE ~Dom(x, s)
                BY <4>1, <4>3
            <4> QED BY <4>2, <4>3
        <3> QED BY <3>1, <3>2, <3>3, <1>a DEF Covered
    <2> QED BY <2>1, <2>4, <2>5, <1>a
<1> QED BY <1>1, <1>2

\* the empty archive satisfies the invariant, so by induction every history does
THEOREM EmptyInv == Inv({}, {})
  BY DEF Inv, NonDominated, Covered
=============================================================================
