----------------------------- MODULE RobustLaws -----------------------------
(* TLAPS side-car for C14: the cost-vector law of the worst-case evaluator for ANY number of batches.
   RobustEval.tla (TLC: up to 6 batches) keeps, per design, the length of its cost vector and how often it was post-processed.
   Here the same step is stated over arbitrary functions on an arbitrary set of designs: a batch adds new designs (disjoint from the
   old ones), the work list contains the new designs and -- unless the lists are reset -- everything processed before.
   With the reset, "every design has UserM + 1 costs and was processed exactly once" is inductive; without it (the pinned tree before
   the fix: named deviation NoReset) the invariant is not preserved -- shown by a concrete counterexample step.                  *)
EXTENDS Integers, TLAPS
CONSTANT UserM
ASSUME UserMNat == UserM \in Nat

\* one batch: old = designs processed so far, new = the batch, work = designs the evaluator post-processes in run()
Write(len) == IF len > UserM + 1 THEN len ELSE len + 1                 \* append the sensitivity, or overwrite if the vector is already longer
StepLen(costLen, old, new, work) ==
   [ d \in old \cup new |-> LET base == IF d \in new THEN UserM ELSE costLen[d] IN IF d \in work THEN Write(base) ELSE base ]
StepProc(processed, old, new, work) ==
   [ d \in old \cup new |-> (IF d \in new THEN 0 ELSE processed[d]) + (IF d \in work THEN 1 ELSE 0) ]
Inv(costLen, processed, D) == /\ costLen \in [D -> Nat] /\ processed \in [D -> Nat]
                              /\ \A d \in D : costLen[d] = UserM + 1 /\ processed[d] = 1

THEOREM ResetKeepsInvariant ==
    ASSUME NEW old, NEW new, old \cap new = {}, NEW costLen, NEW processed, Inv(costLen, processed, old)
    PROVE  Inv(StepLen(costLen, old, new, new), StepProc(processed, old, new, new), old \cup new)      \* work = the new batch only
<1>1. \A d \in old : d \notin new
    OBVIOUS
<1>2. \A d \in old \cup new : StepLen(costLen, old, new, new)[d] = UserM + 1
    BY <1>1, UserMNat DEF StepLen, Write, Inv
<1>3. \A d \in old \cup new : StepProc(processed, old, new, new)[d] = 1
    BY <1>1 DEF StepProc, Inv
<1>4. StepLen(costLen, old, new, new) \in [old \cup new -> Nat] /\ StepProc(processed, old, new, new) \in [old \cup new -> Nat]
    BY <1>2, <1>3, UserMNat DEF StepLen, StepProc
<1> QED BY <1>2, <1>3, <1>4 DEF Inv

\* without the reset the work list still holds the old designs: they are processed again and their cost vector grows
THEOREM NoResetBreaksInvariant ==
    ASSUME NEW old, NEW new, old \cap new = {}, NEW costLen, NEW processed, Inv(costLen, processed, old), old # {}
    PROVE  ~Inv(StepLen(costLen, old, new, old \cup new), StepProc(processed, old, new, old \cup new), old \cup new)
<1>1. PICK d \in old : TRUE
    OBVIOUS
<1>2. d \notin new /\ d \in old \cup new
    BY <1>1
<1>3. StepProc(processed, old, new, old \cup new)[d] = 2
    BY <1>2 DEF StepProc, Inv
<1> QED BY <1>2, <1>3 DEF Inv
=============================================================================
