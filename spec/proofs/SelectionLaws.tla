--------------------------- MODULE SelectionLaws ---------------------------
(* TLAPS side-car for C03 / C09: the "hence" of the properties for populations of ANY size.
   C03 says: survivors are chosen rank first, HENCE no survivor is dominated by a discarded design.  C09 says the same of consecutive
   generations.  TLC checks this for every population of <= 4 designs (Selection.tla, Compose.tla); here it is proved for an arbitrary
   set of designs, an arbitrary dominance relation and any rank assignment that respects it (a dominated design ranks strictly behind
   its dominator -- which C02's characterisation rank = 1 + largest rank of a dominator gives, checked by Compose.tla).            *)
EXTENDS Integers, TLAPS
CONSTANT I, Dom(_, _), front
ASSUME FrontType == front \in [I -> Nat]
ASSUME RankRespectsDominance == \A a, b \in I : Dom(a, b) => front[a] < front[b]

RankFirst(kept) == \A s \in kept, d \in I \ kept : front[s] <= front[d]
Elitist(kept)   == \A s \in kept, d \in I \ kept : ~Dom(d, s)

THEOREM RankFirstIsElitist == \A kept \in SUBSET I : RankFirst(kept) => Elitist(kept)
<1> SUFFICES ASSUME NEW kept \in SUBSET I, RankFirst(kept), NEW s \in kept, NEW d \in I \ kept, Dom(d, s) PROVE FALSE
    BY DEF Elitist
<1>1. front[d] < front[s]
    BY RankRespectsDominance
<1>2. front[s] <= front[d]
    BY DEF RankFirst
<1>3. front[s] \in Nat /\ front[d] \in Nat
    BY FrontType
<1> QED BY <1>1, <1>2, <1>3

\* generational elitism (C09): the pool I is the previous generation together with its offspring; a survivor set chosen rank first is
\* never dominated by a dropped member of the previous generation
THEOREM GenerationalElitism ==
    ASSUME NEW prev \in SUBSET I, NEW next \in SUBSET I, RankFirst(next)
    PROVE  \A s \in next, d \in prev : d \notin next => ~Dom(d, s)
  BY RankFirstIsElitist DEF Elitist

\* a best design is never lost: if some member has rank 1 and the survivor set is not empty, a rank-1 design survives
THEOREM BestSurvives ==
    ASSUME NEW kept \in SUBSET I, RankFirst(kept), kept # {}, \E b \in I : front[b] = 1, \A x \in I : front[x] >= 1
    PROVE  \E s \in kept : front[s] = 1
<1>1. PICK b \in I : front[b] = 1
    OBVIOUS
<1>2. CASE b \in kept
    BY <1>1, <1>2
<1>3. CASE b \notin kept
    <2>1. PICK s \in kept : TRUE
        OBVIOUS
    <2>2. front[s] <= 1 /\ front[s] >= 1 /\ front[s] \in Nat
        BY <1>1, <1>3, <2>1, FrontType DEF RankFirst
    <2> QED BY <2>1, <2>2
<1> QED BY <1>2, <1>3
=============================================================================
