---------------------------- MODULE IdentityLaws ----------------------------
(* TLAPS side-car for C20: design-point equality for ANY number of coordinates.  Coordinates are integers in units far below the
   tolerance T (artap: 1e-10 absolute), so that "coincide to the tolerance" is |difference| < T.  TLC checks the same laws for Dim <= 3
   (4) over a 2 x 2 grid per coordinate (Identity.tla).  The point of the last theorem: tolerance equality is NOT transitive, so
   hash-based containers (which need an equivalence) agree with == only on identical vectors -- which is all the property demands. *)
EXTENDS Integers, TLAPS
CONSTANT Idx, T
ASSUME TPos == T \in Nat /\ T > 1
Point == [Idx -> Int]
AbsV(x) == IF x < 0 THEN -x ELSE x
Eq(a, b) == \A i \in Idx : AbsV(a[i] - b[i]) < T
Identical(a, b) == \A i \in Idx : a[i] = b[i]

THEOREM EqReflexive == \A a \in Point : Eq(a, a)
  BY TPos DEF Eq, AbsV, Point
THEOREM EqSymmetric == \A a, b \in Point : Eq(a, b) <=> Eq(b, a)
  BY DEF Eq, AbsV, Point
THEOREM IdenticalAreEqual == \A a, b \in Point : Identical(a, b) => Eq(a, b)
<1> SUFFICES ASSUME NEW a \in Point, NEW b \in Point, Identical(a, b), NEW i \in Idx PROVE AbsV(a[i] - b[i]) < T
    BY DEF Eq
<1>1. a[i] \in Int /\ b[i] \in Int /\ a[i] = b[i]
    BY DEF Point, Identical
<1>2. a[i] - b[i] = 0
    BY <1>1
<1> QED BY <1>2, TPos DEF AbsV
\* points that differ in ANY coordinate by the tolerance or more are unequal, whichever coordinate it is
THEOREM AnyCoordinateDecides == \A a, b \in Point : (\E i \in Idx : AbsV(a[i] - b[i]) >= T) => ~Eq(a, b)
<1> SUFFICES ASSUME NEW a \in Point, NEW b \in Point, NEW i \in Idx, AbsV(a[i] - b[i]) >= T, Eq(a, b) PROVE FALSE
    OBVIOUS
<1>1. AbsV(a[i] - b[i]) < T
    BY DEF Eq
<1>2. AbsV(a[i] - b[i]) \in Int /\ T \in Int
    BY TPos DEF AbsV, Point
<1> QED BY <1>1, <1>2
\* equality to a tolerance is not transitive: a chain of two sub-tolerance steps leaves the tolerance
THEOREM NotTransitive ==
    ASSUME Idx # {}
    PROVE  \E a, b, c \in Point : Eq(a, b) /\ Eq(b, c) /\ ~Eq(a, c)
<1> DEFINE a == [i \in Idx |-> 0]
           b == [i \in Idx |-> T - 1]
           c == [i \in Idx |-> 2 * T - 2]
<1>1. a \in Point /\ b \in Point /\ c \in Point
    BY TPos DEF Point
<1>2. Eq(a, b) /\ Eq(b, c)
    BY TPos DEF Eq, AbsV
<1>3. ~Eq(a, c)
    <2>1. PICK i \in Idx : TRUE
        OBVIOUS
    <2>2. a[i] = 0 /\ c[i] = 2 * T - 2
        BY <2>1
    <2>3. a[i] - c[i] = 2 - 2 * T /\ 2 - 2 * T < 0
        BY <2>2, TPos
    <2>4. AbsV(a[i] - c[i]) = 2 * T - 2
        BY <2>3, TPos DEF AbsV
    <2>5. AbsV(a[i] - c[i]) >= T
        BY <2>4, TPos
    <2>6. ~(AbsV(a[i] - c[i]) < T)
        BY <2>4, <2>5, TPos
    <2> QED BY <2>1, <2>6 DEF Eq
<1> QED BY <1>1, <1>2, <1>3
=============================================================================
