------------------------------- MODULE Results -------------------------------
(* C17 -- design model: individuals are recorded one by one (any tags, in any order, duplicates allowed); the queries are
   the definitions of ResultsOps.  TLC checks over all record lists within the bounds that the definitions are mutually
   consistent (populations partition the record list in recording order, the default population is the one with the
   largest tag, an optimum always exists and is extremal, sorting a listing preserves the pairing) and the indicator
   laws over all small point sets.                                                                              *)
EXTENDS ResultsOps, TLC, Json
CONSTANTS MaxRec, Tags, PVals, CVals
NP == 2
NC == 2
Dir == <<"min", "max">>
RecDom == [tag : Tags, vec : [1..NP -> PVals], costs : [1..NC -> CVals]]
VARIABLE recs
Init == recs = <<>>
Record(r) == Len(recs) < MaxRec /\ recs' = Append(recs, [k |-> Len(recs) + 1, tag |-> r.tag, vec |-> r.vec, costs |-> r.costs])
Next == \E r \in RecDom : Record(r)
Spec == Init /\ [][Next]_recs
NonEmpty == recs # <<>>
PopulationPartition == \A i \in DOMAIN recs : \E j \in DOMAIN Population(recs, recs[i].tag) : Population(recs, recs[i].tag)[j] = recs[i]
PopulationOrder == \A t \in Tags : LET idx == PopIdx(recs, t) IN \A a, b \in DOMAIN idx : a < b => idx[a] < idx[b]
FoldSetSum(S) == LET RECURSIVE f(_)
                     f(T) == IF T = {} THEN 0 ELSE LET t == CHOOSE x \in T : TRUE IN Len(PopIdx(recs, t)) + f(T \ {t})
                 IN f(S)
PopulationSizes == NonEmpty => Len(recs) = FoldSetSum(Tags)
DefaultIsLast == NonEmpty => /\ Population(recs, TagOrLast(recs, -1)) # <<>>
                             /\ \A i \in DOMAIN recs : recs[i].tag <= LastTag(recs)
OptimumExists == NonEmpty => \A c \in 1..NC : \E i \in DOMAIN recs : IsOptimum(recs, i, c, Dir[c])
\* sorting a listing by its first component preserves the pairing: the sorted reference listing satisfies ListingOK
SortedListingExists == NonEmpty =>
   LET pop == Population(recs, LastTag(recs))
       pairs == PairsOf(pop, 1, 2)
       srt == SortSeq(pairs, LAMBDA a, b : a[1] < b[1] \/ (a[1] = b[1] /\ a[2] < b[2]))
   IN ListingOK(pairs, [ j \in DOMAIN srt |-> srt[j][1] ], [ j \in DOMAIN srt |-> srt[j][2] ], TRUE)
Emit == Len(recs) = MaxRec => PrintT(<<"BEH", ToJson(recs)>>)
\* ---- indicator laws over all non-empty subsets of the 3 x 3 grid ----
Pts == [1..2 -> 0..2]
AsSeq(S) == SetToSeq(S)
IndicatorLaws == \A A \in (SUBSET Pts) \ {{}} :
                    LET a == AsSeq(A) IN
                    /\ EpsAdd(a, a) = 0
                    /\ \A d \in 0..2 : EpsAdd(a, [ j \in DOMAIN a |-> [i \in 1..2 |-> a[j][i] + d] ]) = d
                    /\ \A j \in DOMAIN a : NearestSq(a[j], a) = 0
ASSUME IndicatorLaws
ASSUME ISqrt(0) = 0 /\ ISqrt(1) = 1 /\ ISqrt(15) = 3 /\ ISqrt(16) = 4 /\ ISqrt(2000000000) = 44721
=============================================================================
