------------------------- MODULE ProblemRunsTrace -------------------------
(* Validates what real runs of artap algorithms leave on one problem object against ProblemRuns: after every run() the tagged list of
   problem.individuals (population id, algorithm numbered by first appearance) extends the earlier list without touching it, the new
   designs carry the new run's algorithm id, and populations() / population(g) / last_population() are the model's functions of the tags. *)
EXTENDS ProblemRuns, Json, IOUtils
Traces == JsonDeserialize(IOEnv.TRACE_FILE)
VARIABLES tid, l
Ev == Traces[tid][l]
Clause(name, b) == IF b THEN TRUE ELSE PrintT(<<"FAIL", tid, l, name>>) /\ (IOEnv.ALLCLAUSES = "1")
SeqSet(s) == { s[k] : k \in DOMAIN s }
Rec(s) == [i \in DOMAIN s |-> [pop |-> s[i][1], alg |-> s[i][2]]]
RunEv(e) ==
    LET now == Rec(e.inds) IN
    /\ Clause("no-exception", e.exc = "")
    /\ Clause("earlier-designs-untouched", IsPrefix(inds, now))
    /\ Clause("run-records-something", Len(now) > Len(inds))
    /\ Clause("new-designs-carry-the-run-id-or-none", \A i \in (Len(inds) + 1)..Len(now) : now[i].alg \in {nruns + 1, 0})
    /\ Clause("tags-are-generations-or-unset", \A i \in DOMAIN now : now[i].pop >= -1)
    /\ Clause("a-run-tags-all-its-designs-or-none",
              LET own == { now[i].pop : i \in { j \in (Len(inds) + 1)..Len(now) : now[j].alg = nruns + 1 } } IN own = {-1} \/ -1 \notin own)
    /\ Clause("populations-keys", { e.pops[i][1] : i \in DOMAIN e.pops } = Tags(now))
    /\ Clause("population-sizes", \A i \in DOMAIN e.pops : e.pops[i][2] = Len(PopulationOf(now, e.pops[i][1])))
    /\ Clause("population-members", \A i \in DOMAIN e.pops : SeqSet(e.members[i]) = { j \in DOMAIN now : now[j].pop = e.pops[i][1] })
    /\ Clause("last-population-is-highest-tag", SeqSet(e.last) = { j \in DOMAIN now : now[j].pop = MaxTag(now) })
    /\ inds' = now /\ nruns' = nruns + 1 /\ cur' = Idle
TInit == tid \in 1..Len(Traces) /\ l = 1 /\ Init
TNext == /\ l <= Len(Traces[tid])
         /\ RunEv(Ev)
         /\ l' = l + 1 /\ UNCHANGED tid
TDone == l = Len(Traces[tid]) + 1
TReport == TDone => PrintT(<<"ACCEPT", tid>>)
=============================================================================
