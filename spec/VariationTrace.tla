--------------------------- MODULE VariationTrace ---------------------------
(* Validates class-abstracted observations of the variation operators, generators and of every objective call in real runs.
   vary(op, nin, nout, parents[cls], children[cls])   generated(gen, ndim, rows[[cls]])   evaluated(alg, ndim, classes[cls])       *)
EXTENDS Naturals, Sequences, FiniteSets, TLC, Json, IOUtils
Traces == JsonDeserialize(IOEnv.TRACE_FILE)
VARIABLES tid, l
Ev == Traces[tid][l]
\* diagnostic mode (ALLCLAUSES = "1", trace-mutation self-test only): a failing clause is reported and evaluation goes on, so that clauses
\* shadowed by an earlier one in the same conjunction are exercised too; in every registered check ALLCLAUSES = "0"
Clause(name, b) == IF b THEN TRUE ELSE PrintT(<<"FAIL", tid, l, name>>) /\ (IOEnv.ALLCLAUSES = "1")
InBox == {"AtLb", "In", "AtUb"}
AllIn(s) == \A i \in DOMAIN s : s[i] \in InBox
AllReal(s) == \A i \in DOMAIN s : s[i] \notin {"NaN", "Complex", "NonReal"}
VaryEv(e) ==
    /\ Clause("no-exception", e.exc = "")
    /\ Clause("parents-inside-box", AllIn(e.parents))            \* the property's antecedent: a harness error otherwise
    /\ Clause("same-dimension", \A k \in DOMAIN e.children : Len(e.children[k]) = e.nin)
    /\ Clause("children-real-valued", \A k \in DOMAIN e.children : AllReal(e.children[k]))
    /\ Clause("children-inside-box", \A k \in DOMAIN e.children : AllIn(e.children[k]))
GeneratedEv(e) ==
    /\ Clause("no-exception", e.exc = "")
    /\ Clause("one-coordinate-per-parameter", \A k \in DOMAIN e.rows : Len(e.rows[k]) = e.ndim)
    /\ Clause("generated-designs-real-valued", \A k \in DOMAIN e.rows : AllReal(e.rows[k]))
    /\ Clause("generated-designs-inside-box", \A k \in DOMAIN e.rows : AllIn(e.rows[k]))
EvaluatedEv(e) ==
    /\ Clause("evaluated-design-has-every-coordinate", Len(e.classes) = e.ndim)
    /\ Clause("evaluated-design-real-valued", AllReal(e.classes))
    /\ Clause("evaluated-design-inside-box", AllIn(e.classes))
TInit == tid \in 1..Len(Traces) /\ l = 1
TNext == /\ l <= Len(Traces[tid])
         /\ CASE Ev.ev = "vary"      -> VaryEv(Ev)
              [] Ev.ev = "generated" -> GeneratedEv(Ev)
              [] Ev.ev = "evaluated" -> EvaluatedEv(Ev)
              [] Ev.ev = "runerror"  -> Clause("run-completes", FALSE)
              [] OTHER -> Clause("known-event", FALSE)
         /\ l' = l + 1 /\ UNCHANGED tid
TDone == l = Len(Traces[tid]) + 1
TReport == TDone => PrintT(<<"ACCEPT", tid>>)
=============================================================================
