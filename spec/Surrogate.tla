------------------------------ MODULE Surrogate ------------------------------
(* C19 -- the surrogate wrapper around the user's objective (artap.surrogate).

   Request(accept): one call of problem.surrogate.evaluate(individual); `accept` is the decision of the problem's predict
   hook (a value / None) -- it is consulted only when the model is trained.
     kind "predict":  trained /\ accept: the prediction is returned and counted as a prediction;
     kind "eval":     otherwise the true objective is evaluated exactly once, returned unchanged, counted, the (vector,
                      value) pair is appended to the training set, and the model is (re)trained exactly at every
                      ts-th true evaluation (never when ts = -1, encoded as ts = 0 here); training sets `trained`.
   Mode "eval" is the pass-through surrogate (SurrogateModelEval): always the true value, one count per request.     *)
EXTENDS Naturals, Sequences, TLC
CONSTANTS TrainSteps, MaxReq, Modes        \* TrainSteps \subseteq Nat (0 = never train), Modes \subseteq {"predict", "eval"}
VARIABLES ts, mode, trained, ec, pc, xs, trains, objcalls, nreq, lastkind
vars == <<ts, mode, trained, ec, pc, xs, trains, objcalls, nreq, lastkind>>
Init == /\ ts \in TrainSteps /\ mode \in Modes /\ trained \in BOOLEAN
        /\ (mode = "eval" => trained /\ ts = 0)
        /\ ec = 0 /\ pc = 0 /\ xs = <<>> /\ trains = 0 /\ objcalls = 0 /\ nreq = 0 /\ lastkind = "none"
TrainsNow(n) == ts # 0 /\ n % ts = 0
Request(accept) ==
  /\ nreq < MaxReq /\ nreq' = nreq + 1
  /\ IF mode = "eval"
     THEN /\ ec' = ec + 1 /\ objcalls' = objcalls + 1 /\ lastkind' = "eval"
          /\ UNCHANGED <<ts, mode, trained, pc, xs, trains>>
     ELSE IF trained /\ accept
     THEN /\ pc' = pc + 1 /\ lastkind' = "predict"
          /\ UNCHANGED <<ts, mode, trained, ec, xs, trains, objcalls>>
     ELSE /\ ec' = ec + 1 /\ objcalls' = objcalls + 1 /\ xs' = Append(xs, nreq + 1) /\ lastkind' = "eval"
          /\ trains' = trains + (IF TrainsNow(ec + 1) THEN 1 ELSE 0)
          /\ trained' = (trained \/ TrainsNow(ec + 1))
          /\ UNCHANGED <<ts, mode, pc>>
Next == \E a \in BOOLEAN : Request(a)
Spec == Init /\ [][Next]_vars
\* ---- C19 ----
CountersAddUp  == ec + pc = nreq                                      \* evaluation and prediction counters add up to the requests
OneCallPerEval == objcalls = ec                                       \* the true objective is called exactly once per true evaluation
DataAligned    == mode = "predict" => Len(xs) = ec                    \* one (vector, value) pair per true evaluation ...
DataInOrder    == \A i, j \in DOMAIN xs : i < j => xs[i] < xs[j]      \* ... appended in request order
TrainSchedule  == trains = (IF ts = 0 THEN 0 ELSE ec \div ts)         \* retrained exactly at every ts-th true evaluation
NeverTrained   == (ts = 0 /\ mode = "predict") => trains = 0
PassThrough    == mode = "eval" => pc = 0 /\ ec = nreq
\* a prediction is used only when the model is trained (action property)
PredictOnlyTrained == [][ (pc' = pc + 1) => trained ]_vars
\* once trained, always trained; counters never decrease
Monotone == [][ (trained => trained') /\ ec' >= ec /\ pc' >= pc /\ trains' >= trains ]_vars
=============================================================================
