-------------------------------- MODULE Store --------------------------------
(* C10 / C11 -- the SQLite data store (thread-safe mode) as a state machine.

   Volatile side: individuals with an id and a data version (ver[d] grows whenever the in-memory individual changes:
   costs assigned, generation tag set, features updated).  Durable side: one row per id holding the version written last.
     Mutate(d)          the algorithm changes the individual in memory
     Exec(c, d)         connection c executes the upsert for d inside its transaction (exclusive lock)
     Commit(c)          the transaction becomes durable atomically; the call returns to the caller afterwards
     ExecAll / Commit   sync_all: one upsert per recorded individual, one commit
     Crash              the process dies: uncommitted transactions vanish, durable rows stay
     Read               a read-mode view sees exactly the durable rows
   Named deviations (non-vacuity witnesses, never used by a registered check as the expected behaviour):
     Deviation = "insert-ignore"   the upsert keeps the old row       -> violates LastWriterWins
     Deviation = "batched-commit"  commits are postponed             -> violates ReturnedAreDurable after a crash
     Deviation = "journal-off"     no rollback journal (what thread_safe=False selects): pages that SQLite writes to the file before the
                                   commit (Spill: the transaction no longer fits the page cache) cannot be undone
                                                                      -> violates CrashAtomic (extension X05)                 *)
EXTENDS Integers, Sequences, FiniteSets, TLC
CONSTANTS Ids, Conns, MaxVer, MaxOps, Deviation
VARIABLES ver,        \* id -> current in-memory version (0 = not created yet)
          txn,        \* connection -> sequence of <<id, version>> written but not committed
          lock,       \* connection holding the exclusive lock, or 0
          durable,    \* id -> committed version (0 = no row)
          returned,   \* id -> highest version whose synchronisation has returned to the caller
          crashed, nops, pendingCommit,
          spilled,    \* connection -> number of entries of its open transaction already written to the database file
          torn        \* after a crash: the file holds part of an uncommitted transaction (malformed / half-applied)
vars == <<ver, txn, lock, durable, returned, crashed, nops, pendingCommit, spilled, torn>>
Init == /\ ver = [d \in Ids |-> 0] /\ txn = [c \in Conns |-> <<>>] /\ lock = 0
        /\ durable = [d \in Ids |-> 0] /\ returned = [d \in Ids |-> 0] /\ crashed = FALSE /\ nops = 0
        /\ pendingCommit = [c \in Conns |-> <<>>] /\ spilled = [c \in Conns |-> 0] /\ torn = FALSE
Alive == ~crashed /\ nops < MaxOps
Step == nops' = nops + 1
Mutate(d) == /\ Alive /\ ver[d] < MaxVer /\ ver' = [ver EXCEPT ![d] = @ + 1] /\ Step
             /\ UNCHANGED <<txn, lock, durable, returned, crashed, pendingCommit, spilled, torn>>
Exec(c, d) == /\ Alive /\ ver[d] > 0 /\ lock \in {0, c} /\ lock' = c
              /\ txn' = [txn EXCEPT ![c] = Append(@, <<d, ver[d]>>)] /\ Step
              /\ UNCHANGED <<ver, durable, returned, crashed, pendingCommit, spilled, torn>>
\* the open transaction outgrows the page cache: SQLite writes a dirty page to the database file before the commit (with a rollback
\* journal the original page is saved first, so a crash is undone when the file is next opened)
Spill(c) == /\ Alive /\ lock = c /\ spilled[c] < Len(txn[c]) /\ Step
            /\ spilled' = [spilled EXCEPT ![c] = @ + 1]
            /\ UNCHANGED <<ver, txn, lock, durable, returned, crashed, pendingCommit, torn>>
ApplyTxn(rows, t) ==
   [d \in Ids |-> LET hits == { i \in DOMAIN t : t[i][1] = d } IN
                  IF hits = {} THEN rows[d]
                  ELSE IF Deviation = "insert-ignore" /\ rows[d] # 0 THEN rows[d]
                  ELSE t[CHOOSE i \in hits : \A j \in hits : j <= i][2]]          \* last write of the transaction wins
Commit(c) == /\ Alive /\ txn[c] # <<>> /\ lock = c /\ Step
             /\ IF Deviation = "batched-commit" /\ \E d \in Ids : ver[d] = 0
                THEN /\ pendingCommit' = [pendingCommit EXCEPT ![c] = @ \o txn[c]]    \* deviation: nothing is made durable yet
                     /\ UNCHANGED durable
                ELSE /\ durable' = ApplyTxn(durable, pendingCommit[c] \o txn[c])
                     /\ pendingCommit' = [pendingCommit EXCEPT ![c] = <<>>]
             /\ returned' = [d \in Ids |-> LET hits == { i \in DOMAIN txn[c] : txn[c][i][1] = d } IN
                                           IF hits = {} THEN returned[d]
                                           ELSE LET v == txn[c][CHOOSE i \in hits : \A j \in hits : j <= i][2] IN
                                                IF v > returned[d] THEN v ELSE returned[d]]
             /\ txn' = [txn EXCEPT ![c] = <<>>] /\ lock' = 0 /\ spilled' = [spilled EXCEPT ![c] = 0]
             /\ UNCHANGED <<ver, crashed, torn>>
Crash == /\ ~crashed /\ crashed' = TRUE
         /\ txn' = [c \in Conns |-> <<>>] /\ lock' = 0 /\ pendingCommit' = [c \in Conns |-> <<>>]
         /\ torn' = (Deviation = "journal-off" /\ \E c \in Conns : spilled[c] > 0)
         /\ spilled' = [c \in Conns |-> 0]
         /\ UNCHANGED <<ver, durable, returned, nops>>
Next == Crash \/ (\E d \in Ids : Mutate(d)) \/ (\E c \in Conns, d \in Ids : Exec(c, d)) \/ (\E c \in Conns : Commit(c) \/ Spill(c))
Spec == Init /\ [][Next]_vars
\* ---- C10 ----
NoFutureRows    == \A d \in Ids : durable[d] <= ver[d]                          \* a row never holds data the individual never had
ReturnedDurable == \A d \in Ids : durable[d] >= returned[d]                     \* whatever has been synchronised is in the file (last wins)
LastWriterWins  == [][ \A c \in Conns : (txn[c] # <<>> /\ txn'[c] = <<>> /\ ~crashed') =>
                        \A i \in DOMAIN txn[c] : durable'[txn[c][i][1]] >= txn[c][i][2] ]_vars
\* ---- C11 ----
ReturnedAreDurable == crashed => \A d \in Ids : durable[d] >= returned[d]
CrashAtomic == crashed => ~torn                     \* after a crash the file holds exactly the committed transactions
LockExclusive == lock = 0 \/ \A c \in Conns : (c # lock => txn[c] = <<>>)
=============================================================================
