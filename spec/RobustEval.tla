----------------------------- MODULE RobustEval -----------------------------
(* C14 -- WorstCaseEvaluator / GradientEvaluator as a state machine over the evaluator's work lists.

   EvaluateBatch(k): Algorithm.evaluate(batch of k new designs) with the worst-case evaluator:
     base evaluation of the batch, add(): 2n neighbour designs per new design appended to the work lists,
     run(): the work list is evaluated (already evaluated entries are skipped) and EVERY design on `work` gets its
     sensitivity written (appended if its cost vector is not longer than n entries, else overwritten),
     and -- ResetLists -- the work lists are cleared for the next batch.
   ResetLists = FALSE is the named deviation "NoReset" (the behaviour of the pinned tree before the fix): designs of
   earlier batches stay on the list, are post-processed again and get a second sensitivity entry.              *)
EXTENDS Integers, Sequences, FiniteSets, TLC
CONSTANTS NParams, UserM, MaxBatches, BatchSizes, ResetLists, Kind      \* Kind \in {"worstcase", "gradient"}
VARIABLES work,       \* evaluator.individuals: designs awaiting post-processing (sequence of design ids)
          costLen,    \* design -> length of its cost vector
          nChildren,  \* design -> number of neighbour designs attached
          processed,  \* design -> how many times a sensitivity / gradient was written for it
          calls,      \* total objective calls
          nb, nextd
vars == <<work, costLen, nChildren, processed, calls, nb, nextd>>
Designs == DOMAIN costLen
PerDesign == IF Kind = "worstcase" THEN 2 * NParams ELSE NParams          \* neighbour evaluations per design
Extra == IF Kind = "worstcase" THEN 1 ELSE 0                              \* extra cost entries the evaluator promises
NCost == UserM + 1                                                         \* evaluator.n: user objectives + 'sensitivity'
Init == work = <<>> /\ costLen = <<>> /\ nChildren = <<>> /\ processed = <<>> /\ calls = 0 /\ nb = 0 /\ nextd = 1
Ext(f, new, val) == [ d \in (DOMAIN f) \cup new |-> IF d \in new THEN val ELSE f[d] ]
EvaluateBatch(k) ==
  /\ nb < MaxBatches
  /\ LET batch == nextd..(nextd + k - 1)
         w2    == work \o [ i \in 1..k |-> nextd + i - 1 ]                   \* add(): append to the work list
         todo  == { w2[i] : i \in DOMAIN w2 }                                 \* run(): everything on the list is post-processed
         len0  == Ext(costLen, batch, UserM)                                  \* base evaluation: one entry per user objective
         wr(d) == IF Kind = "gradient" THEN len0[d]                            \* the gradient goes to features, not to costs
                  ELSE IF len0[d] > NCost THEN len0[d] ELSE len0[d] + 1       \* append, or overwrite if already longer than n
     IN /\ costLen'   = [ d \in DOMAIN len0 |-> IF d \in todo THEN wr(d) ELSE len0[d] ]
        /\ nChildren' = Ext(nChildren, batch, PerDesign)
        /\ processed' = [ d \in DOMAIN len0 |-> (IF d \in DOMAIN processed THEN processed[d] ELSE 0) + (IF d \in todo THEN 1 ELSE 0) ]
        /\ calls' = calls + k * (1 + PerDesign)                               \* old neighbours are EVALUATED and skipped
        /\ work' = IF ResetLists THEN <<>> ELSE w2
        /\ nextd' = nextd + k
  /\ nb' = nb + 1
Next == \E k \in BatchSizes : EvaluateBatch(k)
Spec == Init /\ [][Next]_vars
\* ---- C14 ----
CostLen       == \A d \in Designs : costLen[d] = UserM + Extra      \* one entry per user objective (+ the sensitivity), forever
ProcessedOnce == \A d \in Designs : processed[d] = 1                 \* earlier designs are not re-processed
Children      == \A d \in Designs : nChildren[d] = PerDesign
CallBudget    == calls = (nextd - 1) * (1 + PerDesign)               \* exactly 2n resp. n additional evaluations per design
WorkEmpty     == work = <<>>
=============================================================================
