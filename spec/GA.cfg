CONSTANTS M = 2
Vals = {0,1,2}
Marks = {0,1}
MaxAdds = 4
Comparator = "pareto"
SPECIFICATION GSpec
INVARIANT Emit
INVARIANT InvND
CHECK_DEADLOCK FALSE
