------------------------------- MODULE StoreApi -------------------------------
(* C10 -- the data store at the grain of its public API (each operation is a committed transaction of Store.tla):
     Create(d)    an individual with a fresh id is recorded in the problem
     Mutate(d)    the algorithm changes it in memory (costs, generation tag, features, custom data)
     SyncInd(d)   data_store.sync_individual(d): upsert + commit
     SyncAll      data_store.sync_all(): upsert of every recorded individual + one commit
   A read-mode view shows `durable`.  The history variable is what the emitter prints.                           *)
EXTENDS Integers, Sequences, FiniteSets, TLC, Json
CONSTANTS Ids, MaxVer, MaxOps
VARIABLES ver, durable, nops, hist
vars == <<ver, durable, nops, hist>>
Init == ver = [d \in Ids |-> 0] /\ durable = [d \in Ids |-> 0] /\ nops = 0 /\ hist = <<>>
Op(a, d) == nops < MaxOps /\ nops' = nops + 1 /\ hist' = Append(hist, [a |-> a, d |-> d])
Create(d)  == ver[d] = 0 /\ ver' = [ver EXCEPT ![d] = 1] /\ UNCHANGED durable /\ Op("create", d)
Mutate(d)  == ver[d] > 0 /\ ver[d] < MaxVer /\ ver' = [ver EXCEPT ![d] = @ + 1] /\ UNCHANGED durable /\ Op("mutate", d)
SyncInd(d) == ver[d] > 0 /\ durable' = [durable EXCEPT ![d] = ver[d]] /\ UNCHANGED ver /\ Op("sync", d)
SyncAll    == /\ \E d \in Ids : ver[d] > 0
              /\ durable' = [d \in Ids |-> IF ver[d] > 0 THEN ver[d] ELSE durable[d]] /\ UNCHANGED ver /\ Op("syncall", 0)
Next == (\E d \in Ids : Create(d) \/ Mutate(d) \/ SyncInd(d)) \/ SyncAll
Spec == Init /\ [][Next]_vars
NoFutureRows == \A d \in Ids : durable[d] <= ver[d]
RowsOnlyForRecorded == \A d \in Ids : durable[d] > 0 => ver[d] > 0
\* after sync_all the store holds the final data of every recorded individual (until the next mutation)
CompleteAfterSyncAll == (hist # <<>> /\ hist[Len(hist)].a = "syncall") => \A d \in Ids : durable[d] = ver[d]
\* re-synchronising replaces the row: the durable version never goes back
NoRegression == [][ \A d \in Ids : durable'[d] >= durable[d] ]_vars
Emit == (nops = MaxOps) => PrintT(<<"BEH", ToJson(hist)>>)
View == <<ver, durable, nops, IF hist = <<>> THEN "none" ELSE hist[Len(hist)].a>>
=============================================================================
