---------------------------- MODULE Identity ----------------------------
(* C20 -- identity of design points: equality, hashing and the three places where artap relies on them
   (duplicate rejection while offspring are generated, `in` / list.remove on populations, set() de-duplication).

   A design point is a sequence of coordinates; a coordinate is <<cell, off>>:
     cell  -- which "far apart" value it is (two coordinates with different cells differ by >= 1e-9),
     off   -- a perturbation far below the 1e-10 tolerance (same cell, different off: differs by <= 1e-11).
   This is the complete case split the property talks about: identical / coincide-to-1e-10 / different,
   per coordinate, in any subset of coordinates.

   The state machine is the life of one population list `pop` and one offspring list `kids`:
     Offer(p)    duplicate rejection in GeneticAlgorithm.generate: p joins `kids` unless an equal design is there
     Append(p)   a design joins the population (repeats allowed -- NSGA-II appends parent copies)
     Remove(p)   list.remove(p): Archive.remove / pop_acceptance
     Dedupe      population = list(set(population)) in nondominated_truncate                                  *)
EXTENDS Integers, Sequences, FiniteSets, TLC
CONSTANTS Dim, Cells, Offs, MaxOps

Coord == Cells \X Offs
Point == [1..Dim -> Coord]

\* ------------------------------------------------------------------ the property's notions
Eq(a, b)        == Len(a) = Len(b) /\ \A i \in 1..Len(a) : a[i][1] = b[i][1]      \* all coordinates coincide (to 1e-10)
Identical(a, b) == a = b
DiffersIn(a, b) == { i \in 1..Len(a) : a[i][1] # b[i][1] }                       \* the subset of differing coordinates

Member(p, s)    == \E i \in 1..Len(s) : Eq(p, s[i])                               \* `p in s`
FirstEq(p, s)   == CHOOSE i \in 1..Len(s) : Eq(p, s[i]) /\ \A j \in 1..(i - 1) : ~Eq(p, s[j])
DropAt(s, i)    == [ j \in 1..(Len(s) - 1) |-> IF j < i THEN s[j] ELSE s[j + 1] ]
RemoveFirst(p, s) == IF Member(p, s) THEN DropAt(s, FirstEq(p, s)) ELSE s         \* list.remove

\* what any correct set()-based de-duplication may return (hash-dependent for "near" points, hence a relation):
\*   res is a sub-list of s (as indices, each at most once); identical points are merged; every point keeps a representative
DedupeOK(s, idx) ==
    /\ \A k \in 1..Len(idx) : idx[k] \in 1..Len(s)
    /\ \A k, m \in 1..Len(idx) : k # m => ~Identical(s[idx[k]], s[idx[m]])          \* repeated designs are merged
    /\ \A i \in 1..Len(s) : \E k \in 1..Len(idx) : Eq(s[i], s[idx[k]])               \* a distinct design is never discarded
\* reference de-duplication: keep the first of each class of identical points
RECURSIVE KeepFirst(_, _, _)
KeepFirst(s, i, acc) == IF i > Len(s) THEN acc
                        ELSE IF \E k \in 1..Len(acc) : Identical(s[acc[k]], s[i]) THEN KeepFirst(s, i + 1, acc)
                        ELSE KeepFirst(s, i + 1, Append(acc, i))

\* offspring generation: candidates cs[1..consumed] were produced, the first `size` pairwise different ones must be the result
GenerateOK(cs, consumed, size, idx) ==
    /\ Len(idx) = size
    /\ \A k \in 1..Len(idx) : idx[k] \in 1..consumed
    /\ \A k, m \in 1..Len(idx) : k # m => ~Eq(cs[idx[k]], cs[idx[m]])               \* no repeated design among the offspring
    /\ \A c \in 1..consumed : \E k \in 1..Len(idx) : Eq(cs[c], cs[idx[k]])           \* every rejected candidate repeats an offspring
           \/ (c > idx[Len(idx)])                                                      \* ... or was produced after the list was full

\* ------------------------------------------------------------------ state machine
VARIABLES pop, kids, seen, nops
vars == <<pop, kids, seen, nops>>
Init == pop = <<>> /\ kids = <<>> /\ seen = {} /\ nops = 0
Offer(p)  == /\ kids' = IF Member(p, kids) THEN kids ELSE Append(kids, p)
             /\ seen' = seen \cup {p} /\ UNCHANGED pop
AppendP(p) == pop' = Append(pop, p) /\ UNCHANGED <<kids, seen>>
Remove(p) == pop' = RemoveFirst(p, pop) /\ UNCHANGED <<kids, seen>>
Dedupe    == /\ pop # <<>>
             /\ LET idx == KeepFirst(pop, 1, <<>>) IN pop' = [ k \in 1..Len(idx) |-> pop[idx[k]] ]
             /\ UNCHANGED <<kids, seen>>
Next == /\ nops < MaxOps /\ nops' = nops + 1
        /\ \/ \E p \in Point : Offer(p) \/ AppendP(p) \/ Remove(p)
           \/ Dedupe
Spec == Init /\ [][Next]_vars

\* ------------------------------------------------------------------ properties of the design
KidsDistinct   == \A i, j \in 1..Len(kids) : i # j => ~Eq(kids[i], kids[j])
NothingLost    == \A p \in seen : Member(p, kids)                       \* a distinct design is never rejected
EqIsEquivalence == \A a, b \in Point : /\ Eq(a, a) /\ (Eq(a, b) <=> Eq(b, a))
                                       /\ (Identical(a, b) => Eq(a, b))
                                       /\ (Eq(a, b) <=> DiffersIn(a, b) = {})
RefDedupeOK    == pop # <<>> => DedupeOK(pop, KeepFirst(pop, 1, <<>>))
\* list.remove never removes a design different from the one asked for, and removes one iff an equal one is present
RemoveLaw == [][ \A p \in Point : (pop' = RemoveFirst(p, pop) /\ pop' # pop) =>
                   /\ Len(pop') = Len(pop) - 1
                   /\ Member(p, pop)
                   /\ \A q \in Point : ~Eq(q, p) =>
                        Cardinality({ i \in 1..Len(pop) : pop[i] = q }) = Cardinality({ i \in 1..Len(pop') : pop'[i] = q }) ]_vars
\* a broken equality (only the last coordinate is compared) is distinguishable in this model: non-vacuity witness
LastOnlyEq(a, b) == a[Len(a)][1] = b[Len(b)][1]
WitnessExists == \E a, b \in Point : LastOnlyEq(a, b) /\ ~Eq(a, b)
ASSUME EqIsEquivalence
ASSUME Dim >= 2 => WitnessExists
=============================================================================
