----------------------------- MODULE RobustTrace -----------------------------
(* Validates what Problem / Individuals show after every batch evaluated with the worst-case or the gradient evaluator.
   One `batch` event per Algorithm.evaluate call lists ALL designs seen so far (not only the new ones), so that the
   stability clauses ("no matter how many further batches are evaluated", "earlier designs are not re-processed") are
   evaluated on the history.  Objectives are integer valued on a lattice, so sums of |differences| are exact.

   batch(kind, nparams, userm, designs[{k, new, costlen, signedlen, calls, f, fc[..], childcosts[..], disp[{axis, sign, ok}], sens,
                                        sensfeature, signedsens, quot[..], coef[..], x2[..], gradlen}])                      *)
EXTENDS Integers, Sequences, FiniteSets, TLC, Json, IOUtils
Traces == JsonDeserialize(IOEnv.TRACE_FILE)
VARIABLES tid, l, seen, calls
Ev == Traces[tid][l]
\* diagnostic mode (ALLCLAUSES = "1", trace-mutation self-test only): a failing clause is reported and evaluation goes on, so that clauses
\* shadowed by an earlier one in the same conjunction are exercised too; in every registered check ALLCLAUSES = "0"
Clause(name, b) == IF b THEN TRUE ELSE PrintT(<<"FAIL", tid, l, name>>) /\ (IOEnv.ALLCLAUSES = "1")
AbsV(x) == IF x < 0 THEN -x ELSE x
RECURSIVE SumAbs(_, _, _)
SumAbs(f, fc, i) == IF i > Len(fc) THEN 0 ELSE AbsV(f - fc[i]) + SumAbs(f, fc, i + 1)
PerDesign(e) == IF e.kind = "worstcase" THEN 2 * e.nparams ELSE e.nparams
DesignOK(e, d) ==
    /\ Clause("neighbour-count", Len(d.disp) = PerDesign(e))
    /\ Clause("neighbours-displaced-by-tolerance", \A i \in DOMAIN d.disp : d.disp[i].ok)
    /\ Clause("neighbours-cover-every-axis-and-sign",
              IF e.kind = "worstcase"
              THEN { <<d.disp[i].axis, d.disp[i].sign>> : i \in DOMAIN d.disp } = (1..e.nparams) \X {-1, 1}
              ELSE { <<d.disp[i].axis, d.disp[i].sign>> : i \in DOMAIN d.disp } = (1..e.nparams) \X {1})
    /\ Clause("neighbours-evaluated", d.childcosts = d.fc)
    /\ Clause("objective-calls-per-design", d.calls = 1 + PerDesign(e))
    /\ Clause("not-reprocessed", d.k \in DOMAIN calls => calls[d.k] = d.calls)
    /\ IF e.kind = "worstcase"
       THEN /\ Clause("cost-length", d.costlen = e.userm + 1)
            /\ Clause("signed-cost-length", d.signedlen = e.userm + 2)
            /\ Clause("sensitivity-is-sum-of-abs-differences", d.sens = SumAbs(d.f, d.fc, 1))
            /\ Clause("sensitivity-feature", d.sensfeature = d.sens)
            /\ Clause("sensitivity-in-signed-costs", d.signedsens = d.sens)
       ELSE /\ Clause("cost-length", d.costlen = e.userm)
            /\ Clause("gradient-length", d.gradlen = e.nparams)
            \* forward difference of f = sum c_i x_i^2 with step 1e-4, in units of 1e-4:  c_i * (2 x_i * 10^4 + 1)
            /\ Clause("gradient-is-forward-difference",
                      \A i \in 1..e.nparams : d.quot[i] = d.coef[i] * (d.x2[i] * 10000 + 1))
BatchEv(e) ==
    LET keys == { e.designs[i].k : i \in DOMAIN e.designs }
        at(k) == e.designs[CHOOSE i \in DOMAIN e.designs : e.designs[i].k = k]
    IN /\ Clause("no-exception", e.exc = "")
       /\ Clause("all-seen-designs-listed", DOMAIN calls \subseteq keys)
       /\ Clause("designs-listed-once", Cardinality(keys) = Len(e.designs))
       /\ \A i \in DOMAIN e.designs : DesignOK(e, e.designs[i])
       /\ calls' = [ k \in keys |-> at(k).calls ]
       /\ seen' = seen + 1
TInit == tid \in 1..Len(Traces) /\ l = 1 /\ seen = 0 /\ calls = <<>>
TNext == /\ l <= Len(Traces[tid])
         /\ IF Ev.ev = "batch" THEN BatchEv(Ev) ELSE Clause("known-event", FALSE) /\ UNCHANGED <<seen, calls>>
         /\ l' = l + 1 /\ UNCHANGED tid
TDone == l = Len(Traces[tid]) + 1
TReport == TDone => PrintT(<<"ACCEPT", tid>>)
=============================================================================
