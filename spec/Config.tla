-------------------------------- MODULE Config --------------------------------
(* Extension beyond the listed properties (DESIGN.md section 11): artap.utils.ConfigDictionary, the option store every algorithm and
   problem depends on (max_population_size, max_population_number, max_processes, ...).
     Declare(n, d, vals, lo, up)   register option n with default d and optional value set / bounds; the entry is stored BEFORE the default
                                   is validated, so a rejected declaration leaves the option declared with its (invalid) default --
                                   modelled as coded and named: RejectedDeclareStays
     Set(n, v)                     reject when read-only, undeclared or invalid (state unchanged), otherwise store
     Get(n)                        value of a declared option, KeyError otherwise
   "None" stands for "no restriction".                                                                                        *)
EXTENDS Integers, FiniteSets, TLC
CONSTANTS Names, Vals, ReadOnly, MaxOps
NoneV == -1
\* the model's option space: a few value sets and bounds are enough to reach every branch of _assert_valid
Opt == [value : Vals, vals : {{NoneV}, {0, 1}, {1, 2}}, lo : {NoneV, 1}, up : {NoneV, 1}]
VARIABLES decl, last, nops
vars == <<decl, last, nops>>
Valid(o, v) == /\ (o.vals # {NoneV} => v \in o.vals)
               /\ (o.up # NoneV => v <= o.up)
               /\ (o.lo # NoneV => v >= o.lo)
Init == decl = [n \in {} |-> 0] /\ last = "none" /\ nops = 0
Put(f, n, o) == [ m \in (DOMAIN f) \cup {n} |-> IF m = n THEN o ELSE f[m] ]
Declare(n, o) == /\ nops < MaxOps /\ nops' = nops + 1
                 /\ decl' = Put(decl, n, o)                                      \* stored first ...
                 /\ last' = IF Valid(o, o.value) THEN "ok" ELSE "ValueError"     \* ... validated afterwards
Set(n, v) == /\ nops < MaxOps /\ nops' = nops + 1
             /\ IF ReadOnly THEN last' = "KeyError" /\ UNCHANGED decl
                ELSE IF n \notin DOMAIN decl THEN last' = "KeyError" /\ UNCHANGED decl
                ELSE IF ~Valid(decl[n], v) THEN last' = "ValueError" /\ UNCHANGED decl
                ELSE last' = "ok" /\ decl' = [decl EXCEPT ![n].value = v]
Next == (\E n \in Names, o \in Opt : Declare(n, o)) \/ (\E n \in Names, v \in Vals : Set(n, v))
Spec == Init /\ [][Next]_vars
\* a value that entered through Set is always valid for its option; only a rejected declaration can leave an invalid default behind
SetValuesValid == [][ \A n \in Names : (n \in DOMAIN decl /\ n \in DOMAIN decl' /\ decl'[n] # decl[n] /\ decl'[n].vals = decl[n].vals
                                          /\ decl'[n].lo = decl[n].lo /\ decl'[n].up = decl[n].up /\ last' = "ok")
                                       => Valid(decl'[n], decl'[n].value) ]_vars
\* a rejected Set leaves every option exactly as it was
FailedSetChangesNothing == [][ (last' \in {"KeyError", "ValueError"} /\ DOMAIN decl' = DOMAIN decl /\ nops' = nops + 1
                                 /\ \A n \in DOMAIN decl : decl'[n].vals = decl[n].vals /\ decl'[n].lo = decl[n].lo /\ decl'[n].up = decl[n].up)
                               => (decl' = decl \/ \E n \in DOMAIN decl : decl'[n].value # decl[n].value /\ ~Valid(decl'[n], decl'[n].value)) ]_vars
\* a read-only dictionary never changes a value through Set
ReadOnlyFrozen == [][ (ReadOnly /\ last' = "KeyError") => decl' = decl ]_vars
DeclaredStay == [][ DOMAIN decl \subseteq DOMAIN decl' ]_vars
=============================================================================
