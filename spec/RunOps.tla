------------------------------- MODULE RunOps -------------------------------
(* C09 -- generation bookkeeping of the population algorithms: the NSGA-II step relation and the steady-state replacement
   of epsilon-MOEA, as constant-free operators shared by the design model (Run) and the trace validator (RunTrace).
   A member is [v |-> design key, c |-> costs, m |-> marker].                                                *)
EXTENDS SortOps, Sequences
MemberKeys(S) == { S[i].v : i \in DOMAIN S }
AsSet(S) == { S[i] : i \in DOMAIN S }
Sol(x) == [c |-> x.c, m |-> x.m]
\* rank of each element of a set of members (by design key) under Pareto dominance
DomIn(R, x) == { y \in R : ParetoCmp(Sol(y), Sol(x)) = 1 }
\* ranks by front peeling (equal to 1 + max rank of the dominators -- NDSort.tla checks that equivalence); linear number of
\* rounds instead of the exponential unfolding of the recursive definition
RECURSIVE PeelRank(_, _, _)
PeelRank(R, k, acc) == IF R = {} THEN acc
                       ELSE LET F == { x \in R : DomIn(R, x) = {} }
                            IN PeelRank(R \ F, k + 1, [ x \in (DOMAIN acc) \cup F |-> IF x \in F THEN k ELSE acc[x] ])
RankIn(R) == PeelRank(R, 1, <<>>)
\* NSGA-II step: prev = previous generation, offs = offspring successfully evaluated since, next = recorded generation
StepOK(prev, offs, next, n) ==
    LET R == AsSet(prev) \cup AsSet(offs)
        S == AsSet(next)
        keysNext == MemberKeys(next)
        dropped == { x \in R : x.v \notin keysNext }
        rk == RankIn(R)
    IN /\ Len(next) = n                                                   \* exactly N designs
       /\ Cardinality(keysNext) = n                                       \* none repeated within the generation
       /\ S \subseteq R                                                   \* survivors come from parents and offspring, with their costs
       /\ \A s \in S, d \in dropped : rk[s] <= rk[d]                      \* rank first
ElitistStep(prev, next) ==          \* no survivor is dominated by a dropped design of the previous generation
    \A s \in AsSet(next), d \in AsSet(prev) : d.v \notin MemberKeys(next) => ParetoCmp(Sol(d), Sol(s)) # 1
BestCost(S) == Min({ S[i].c[1] : i \in DOMAIN S })
\* epsilon-MOEA steady-state acceptance: pop (sequence of solutions), offspring x, result `after`
Dominated(pop, x) == { i \in DOMAIN pop : ParetoCmp(x, pop[i]) = 1 }
IsDominated(pop, x) == \E i \in DOMAIN pop : ParetoCmp(x, pop[i]) = 2
RemoveAt(s, i) == [ j \in 1..(Len(s) - 1) |-> IF j < i THEN s[j] ELSE s[j + 1] ]
\* the property does not say WHERE in the working population the offspring is put: outcomes are compared as bags
CountIn(s, v) == Cardinality({ j \in DOMAIN s : s[j] = v })
SameBag(a, b) == Len(a) = Len(b) /\ \A j \in DOMAIN a : CountIn(a, a[j]) = CountIn(b, a[j])
PopAcceptOK(pop, x, after) ==
    /\ Len(after) = Len(pop)                                                                        \* the population keeps its size
    /\ IF Dominated(pop, x) # {}
       THEN \E i \in Dominated(pop, x) : SameBag(after, Append(RemoveAt(pop, i), x))               \* replaces one of the members it dominates
       ELSE IF IsDominated(pop, x) THEN SameBag(after, pop)                                         \* dominated, dominates nobody: rejected
       ELSE \E i \in DOMAIN pop : SameBag(after, Append(RemoveAt(pop, i), x))                      \* otherwise replaces one arbitrary member
=============================================================================
