---- MODULE GenArchive ----
EXTENDS Archive, Json
VARIABLE hist
GInit == Init /\ hist = <<>>
GNext == \E x \in Vec : /\ Add(x)
                        /\ hist' = Append(hist, [x |-> x, ok |-> last', after |-> contents'])
GSpec == GInit /\ [][GNext]_<<vars, hist>>
Emit == (n = MaxAdds) => PrintT(<<"BEH", ToJson(hist)>>)
====
