----------------------------- MODULE BenchTrace -----------------------------
(* Validates evaluations of the real benchmark classes against the exact lattice model (C16) and observations of the
   single-objective benchmark contract (C15).
   point(family, m, pos, dist, f[[num, den]], n)   zdt1(q[30], f1[num,den], f2[num,den], exact, F1c, F2c, Gc)   biobj(x1, x2, f1, f2)
   single(fn, kind, finite, scalar, v, opt, dir, atopt)                                                          *)
EXTENDS BenchOps, TLC, Json, IOUtils
Traces == JsonDeserialize(IOEnv.TRACE_FILE)
VARIABLES tid, l
Ev == Traces[tid][l]
\* diagnostic mode (ALLCLAUSES = "1", trace-mutation self-test only): a failing clause is reported and evaluation goes on, so that clauses
\* shadowed by an earlier one in the same conjunction are exercised too; in every registered check ALLCLAUSES = "0"
Clause(name, b) == IF b THEN TRUE ELSE PrintT(<<"FAIL", tid, l, name>>) /\ (IOEnv.ALLCLAUSES = "1")
AbsV(x) == IF x < 0 THEN -x ELSE x
PointEv(e) ==
    /\ Clause("no-exception", e.exc = "")
    /\ Clause("one-value-per-objective", Len(e.f) = e.m)
    /\ Clause("objectives-are-the-expected-small-rationals", e.exact)
    /\ Clause("dimension", e.n = Len(e.pos) + Len(e.dist))
    /\ Clause("objectives-match-family-definition",
              \A i \in 1..e.m : RatEqReduced(e.f[i], Objective(e.family, [pos |-> e.pos, dist |-> e.dist], e.m, i)))
    /\ Clause("non-negative", \A i \in 1..e.m : e.f[i][1] >= 0)
\* ZDT1: exact where the square root is rational (g = 1 or f1 = 0), square-root-free identity (g - f2)^2 = g f1 in 1e-2 units elsewhere
ZdtEv(e) ==
    LET G == ZdtGx116(e.q) IN
    /\ Clause("no-exception", e.exc = "")
    /\ Clause("zdt1-f1", RatEq(e.f1, <<e.q[1], 4>>))
    /\ Clause("zdt1-g-when-f1-is-zero", e.q[1] = 0 => RatEq(e.f2, <<G, 116>>))
    /\ Clause("zdt1-exact-at-g-one", (G = 116 /\ e.q[1] = 1) => RatEq(e.f2, <<1, 2>>))
    /\ Clause("zdt1-exact-at-g-one-f1-one", (G = 116 /\ e.q[1] = 4) => RatEq(e.f2, <<0, 1>>) \/ e.f2[1] = 0)
    /\ Clause("zdt1-g-fixed-point", AbsV(e.Gc * 116 - G * 100) <= 116)
    /\ Clause("zdt1-identity", AbsV((e.Gc - e.F2c) * (e.Gc - e.F2c) - e.Gc * e.F1c) <= 2 * AbsV(e.Gc - e.F2c) + e.Gc + e.F1c + 2)
    /\ Clause("non-negative", e.f1[1] >= 0 /\ e.F2c >= 0)
BiObjEv(e) ==
    /\ Clause("no-exception", e.exc = "")
    /\ Clause("biobj-f1", RatEq(e.f1, e.x1))
    \* f1 * f2 = 1 + x2
    /\ Clause("biobj-product", e.f1[1] * e.f2[1] * e.x2[2] = (e.x2[2] + e.x2[1]) * e.f1[2] * e.f2[2])
    /\ Clause("non-negative", e.f1[1] >= 0 /\ e.f2[1] >= 0)
\* C15 contract: totality, optimum value at the optimum coordinates, no better point (values in units of 1e-6, tolerance 1e-3)
SingleEv(e) ==
    /\ Clause("no-exception", e.exc = "")
    /\ Clause("one-finite-real-cost", e.scalar /\ e.finite)
    /\ Clause("optimum-value-at-optimum-coordinates", e.atopt => AbsV(e.v - e.opt) <= 1000)
    /\ Clause("no-better-point", IF e.dir = "min" THEN e.v >= e.opt - 1000 ELSE e.v <= e.opt + 1000)
TInit == tid \in 1..Len(Traces) /\ l = 1
TNext == /\ l <= Len(Traces[tid])
         /\ CASE Ev.ev = "point"  -> PointEv(Ev)
              [] Ev.ev = "zdt1"   -> ZdtEv(Ev)
              [] Ev.ev = "biobj"  -> BiObjEv(Ev)
              [] Ev.ev = "single" -> SingleEv(Ev)
              [] OTHER -> Clause("known-event", FALSE)
         /\ l' = l + 1 /\ UNCHANGED tid
TDone == l = Len(Traces[tid]) + 1
TReport == TDone => PrintT(<<"ACCEPT", tid>>)
=============================================================================
