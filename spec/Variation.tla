------------------------------ MODULE Variation ------------------------------
(* C08 -- nothing leaves the declared parameter box.  Coordinates are abstracted to classes relative to their bounds:
     "Below" < "AtLb" < "In" < "AtUb" < "Above"   (real, finite)      "NaN", "Complex", "NonReal"  (not a usable coordinate)
   The model is the inductive skeleton of every population algorithm: a population of coordinate classes that is created by a
   generator, changed by variation operators and swarm moves, re-sampled after failed evaluations, and evaluated.
     Generate        random / DoE generators yield in-box classes
     Vary(raw)       a variation operator computes an arbitrary real raw value (any class of the real line) and clips it
     SwarmMove(raw)  position + velocity may land anywhere; the violated bound is restored
     Resample        a failed design is replaced through the random generator
     Evaluate        the coordinate is handed to the user's objective
   Deviation = "unclipped" models an operator that forgets to clip (artap's SimpleMutator, outside the property's list): TLC
   must then find an out-of-box evaluation (non-vacuity).                                                               *)
EXTENDS Naturals, FiniteSets, TLC
CONSTANTS MaxSteps, Deviation
RealClasses == {"Below", "AtLb", "In", "AtUb", "Above"}
InBox == {"AtLb", "In", "AtUb"}
Clip(c) == IF c = "Below" THEN "AtLb" ELSE IF c = "Above" THEN "AtUb" ELSE c
VARIABLES cls, evaluated, steps
vars == <<cls, evaluated, steps>>
Init == cls = "none" /\ evaluated = {} /\ steps = 0
Tick == steps < MaxSteps /\ steps' = steps + 1
Generate == /\ cls = "none" /\ \E c \in InBox : cls' = c
            /\ Tick /\ UNCHANGED evaluated
Vary(raw) == /\ cls \in InBox
             /\ cls' = (IF Deviation = "unclipped" THEN raw ELSE Clip(raw))
             /\ Tick /\ UNCHANGED evaluated
SwarmMove(raw) == /\ cls \in InBox /\ cls' = Clip(raw) /\ Tick /\ UNCHANGED evaluated
Resample == /\ cls # "none" /\ \E c \in InBox : cls' = c
            /\ Tick /\ UNCHANGED evaluated
Evaluate == /\ cls # "none" /\ evaluated' = evaluated \cup {cls} /\ Tick /\ UNCHANGED cls
Next == Generate \/ (\E r \in RealClasses : Vary(r) \/ SwarmMove(r)) \/ Resample \/ Evaluate
Spec == Init /\ [][Next]_vars
EvaluatedInBox == evaluated \subseteq InBox
PopulationInBox == cls \in InBox \cup {"none"}
ClipIdempotent == \A c \in RealClasses : Clip(c) \in InBox /\ Clip(Clip(c)) = Clip(c) /\ (c \in InBox => Clip(c) = c)
ASSUME ClipIdempotent
=============================================================================
