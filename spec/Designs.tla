------------------------------- MODULE Designs -------------------------------
(* C12 / C13 -- design check of the predicates in DesignsOps on reference constructions built inside TLA+:
     * a Latin hypercube assembled from arbitrary column permutations is Latin; a repeated stratum is rejected;
     * digit-reversal radical inverse agrees with the summation definition for all i <= MaxI and the first primes;
     * full factorial by mixed-radix counting satisfies FullFactOK; dropping or repeating a row is rejected;
     * cyclic Plackett-Burman constructions (N = 8, 12) plus the -1 row satisfy PBOK; a corrupted sign is rejected;
     * the textbook Box-Behnken design for 3 factors satisfies BBOK; a missing corner / second centre is rejected;
     * a 2-way split of the 3 x 4 factorial satisfies GSDOK.                                                 *)
EXTENDS DesignsOps, TLC
CONSTANTS MaxN, MaxI
Perms(n) == { f \in [1..n -> 0..(n - 1)] : \A a, b \in 1..n : a # b => f[a] # f[b] }
VARIABLES n, p1, p2
Init == n \in 1..MaxN /\ p1 \in Perms(n) /\ p2 \in Perms(n)
Next == UNCHANGED <<n, p1, p2>>
Spec == Init /\ [][Next]_<<n, p1, p2>>
LHSFrom == [ i \in 1..n |-> <<p1[i], p2[i]>> ]
LatinHolds == Latin(LHSFrom, 2)
Broken == [ i \in 1..n |-> <<(IF i = 1 /\ n > 1 THEN p1[2] ELSE p1[i]), p2[i]>> ]
LatinRejects == n > 1 => ~Latin(Broken, 2)
\* radical inverse by summation: sum digit_k / b^(k+1), as a fraction over b^K
RECURSIVE RadSum(_, _, _)
RadSum(i, b, den) == IF i = 0 THEN 0 ELSE (i % b) * (den \div b) + RadSum(i \div b, b, den \div b)
RECURSIVE DenFor(_, _)
DenFor(i, b) == IF i = 0 THEN 1 ELSE b * DenFor(i \div b, b)
ASSUME \A i \in 1..MaxI, b \in {2, 3, 5, 7, 11, 13} : LET r == VdC(i, b) IN r[2] = DenFor(i, b) /\ r[1] = RadSum(i, b, r[2])
ASSUME [ k \in 1..12 |-> NthPrime(k) ] = <<2, 3, 5, 7, 11, 13, 17, 19, 23, 29, 31, 37>>
\* full factorial by counting
FFRow(levels, t) == LET RECURSIVE dig(_, _)
                        dig(j, r) == IF j > Len(levels) THEN <<>> ELSE <<r % levels[j]>> \o dig(j + 1, r \div levels[j])
                    IN dig(1, t)
FFRef(levels) == [ t \in 1..ProdLevels(levels, 1) |-> FFRow(levels, t - 1) ]
ASSUME \A lv \in { <<2>>, <<3>>, <<2, 3>>, <<3, 2, 2>>, <<1, 4>>, <<2, 2, 2, 2>> } :
          /\ FullFactOK(FFRef(lv), lv)
          /\ (Len(FFRef(lv)) > 1 => ~FullFactOK(Tail(FFRef(lv)), lv))
          /\ ~FullFactOK(FFRef(lv) \o <<FFRef(lv)[1]>>, lv)
\* cyclic Plackett-Burman: rows = cyclic shifts of the generator, plus a row of -1
Cyclic(gen) == LET m == Len(gen) IN
               [ i \in 1..(m + 1) |-> IF i = m + 1 THEN [ j \in 1..m |-> -1 ]
                                      ELSE [ j \in 1..m |-> gen[((j - i) % m) + 1] ] ]
PB8  == Cyclic(<<1, 1, 1, -1, 1, -1, -1>>)
PB12 == Cyclic(<<1, 1, -1, 1, 1, 1, -1, -1, -1, 1, -1>>)
ASSUME PBOK(PB8, 7) /\ PBOK(PB12, 11)
ASSUME ~PBOK([PB12 EXCEPT ![3][5] = -PB12[3][5]], 11)
BB3 == << <<-1,-1,0>>, <<1,-1,0>>, <<-1,1,0>>, <<1,1,0>>, <<-1,0,-1>>, <<1,0,-1>>, <<-1,0,1>>, <<1,0,1>>,
          <<0,-1,-1>>, <<0,1,-1>>, <<0,-1,1>>, <<0,1,1>>, <<0,0,0>> >>
ASSUME BBOK(BB3, 3) /\ ~BBOK(Tail(BB3), 3) /\ ~BBOK(BB3 \o << <<0,0,0>> >>, 3)
GSD34 == << << <<0,0>>, <<0,2>>, <<2,0>>, <<2,2>>, <<1,1>>, <<1,3>> >>, << <<0,1>>, <<0,3>>, <<2,1>>, <<2,3>>, <<1,0>>, <<1,2>> >> >>
ASSUME GSDOK(GSD34, <<3, 4>>, TRUE) /\ ~GSDOK(<<GSD34[1], GSD34[1]>>, <<3, 4>>, TRUE)
ASSUME GridOK(<< <<0,0>>, <<0,1>>, <<1,0>>, <<1,1>> >>, 2, 2) /\ ~GridOK(<< <<0,0>>, <<0,1>>, <<1,0>> >>, 2, 2)
=============================================================================
