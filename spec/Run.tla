--------------------------------- MODULE Run ---------------------------------
(* C09 -- NSGA-II as a state machine over generations, and the epsilon-MOEA acceptance step.
   Populations are kept as BAGS of cost vectors (design identity only matters for de-duplication, which Selection.tla
   covers) so that TLC merges all histories that lead to the same population.
     FirstGen        N random designs are evaluated and recorded as generation 1
     Step            N offspring are evaluated; parents and offspring are merged, ranked, truncated to N by ANY rank-respecting
                     choice (crowding only breaks ties); the survivors are recorded as the next generation
     Accept(x)       epsilon-MOEA: steady-state replacement of one member of the working population (Mode = "epsmoea")     *)
EXTENDS RunOps, Bags
CONSTANTS M, Vals, Marks, N, G, Mode
Vec == [c : [1..M -> Vals], m : Marks]
VARIABLES gen, pop, evals, viol, worse, size0
vars == <<gen, pop, evals, viol, worse, size0>>
ToBag(f) == LET D == DOMAIN f IN [ v \in { f[i] : i \in D } |-> Cardinality({ i \in D : f[i] = v }) ]
Init == gen = 0 /\ pop = EmptyBag /\ evals = 0 /\ viol = FALSE /\ worse = FALSE /\ size0 = 0
FirstGen == /\ gen = 0
            /\ \E costs \in [1..N -> Vec] : pop' = ToBag(costs)
            /\ gen' = 1 /\ evals' = evals + N /\ size0' = N /\ UNCHANGED <<viol, worse>>
Parents == { p \in [1..N -> BagToSet(pop)] : ToBag(p) = pop }
Step ==
  /\ Mode = "nsga2" /\ gen >= 1 /\ gen < G
  /\ \E par \in {CHOOSE p \in Parents : TRUE}, off \in [1..N -> Vec] :
       LET R(i)  == IF i <= N THEN par[i] ELSE off[i - N]
           I     == 1..(2 * N)
           Dm(i) == { j \in I : ParetoCmp(R(j), R(i)) = 1 }
           RECURSIVE Rk(_)
           Rk(i) == IF Dm(i) = {} THEN 1 ELSE 1 + Max({ Rk(j) : j \in Dm(i) })
       IN \E S \in SUBSET I :
            /\ Cardinality(S) = N
            /\ \A s \in S, d \in I \ S : Rk(s) <= Rk(d)
            /\ pop' = ToBag([ i \in S |-> R(i) ])
            /\ viol' = (viol \/ \E s \in S, d \in (1..N) \ S : ParetoCmp(R(d), R(s)) = 1)
            /\ worse' = (worse \/ (M = 1 /\ Min({ R(s).c[1] : s \in S }) > Min({ par[i].c[1] : i \in 1..N })))
  /\ gen' = gen + 1 /\ evals' = evals + N /\ UNCHANGED size0
\* epsilon-MOEA: one offspring at a time against the working population (as a sequence chosen from the bag)
Accept(x) ==
  /\ Mode = "epsmoea" /\ gen >= 1 /\ evals < N * (G + 1)
  /\ \E par \in {CHOOSE p \in Parents : TRUE} :
       \E after \in { Append(RemoveAt(par, i), x) : i \in 1..N } \cup {par} :
          /\ PopAcceptOK(par, x, after)
          /\ pop' = ToBag(after)
  /\ evals' = evals + 1 /\ gen' = 1 + ((evals' - N) \div N) /\ UNCHANGED <<viol, worse, size0>>
\* OMOPSO / SMPSO: the whole swarm is copied, moved and re-evaluated every generation; generation tags 0..G (gen counts the recorded ones)
SwarmStep ==
  /\ Mode = "swarm" /\ gen >= 1 /\ gen <= G
  /\ \E off \in [1..N -> Vec] : pop' = ToBag(off)
  /\ gen' = gen + 1 /\ evals' = evals + N /\ UNCHANGED <<viol, worse, size0>>
Next == FirstGen \/ Step \/ SwarmStep \/ (\E x \in Vec : Accept(x))
Spec == Init /\ [][Next]_vars
Budget   == Mode = "nsga2" => evals = N * gen                       \* N successful evaluations per recorded generation
Size     == gen >= 1 => BagCardinality(pop) = N                     \* every generation / the working population keeps N members
Elitism  == ~viol                                                   \* no survivor dominated by a dropped member of the previous generation
Monotone == ~worse                                                  \* single objective: the best cost never gets worse
BudgetEps == Mode = "epsmoea" => evals <= N * (G + 1)
BudgetSwarm == Mode = "swarm" => (evals = N * gen /\ gen <= G + 1)    \* N * (G + 1) evaluations for generations 0..G
=============================================================================
