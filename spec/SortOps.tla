------------------------------- MODULE SortOps -------------------------------
(* Constant-free operators for non-dominated sorting (C02), crowding distance, truncation and binary tournament (C03).
   Populations are sequences of solutions [c |-> costs, m |-> marker] (see DominanceOps).                     *)
EXTENDS DominanceOps, FiniteSetsExt, TLC
\* ---------------------------------------------------------------- C02: ranks
Dominators(P, i) == { j \in DOMAIN P : ParetoCmp(P[j], P[i]) = 1 }
\* the property: characterisation of the front number
RankOK(P, rk) == /\ DOMAIN rk = DOMAIN P
                 /\ \A i \in DOMAIN P :
                      rk[i] = IF Dominators(P, i) = {} THEN 1
                              ELSE 1 + Max({ rk[j] : j \in Dominators(P, i) })
\* reference rank function (well-founded: dominance is a strict partial order)
TrueRank(P) == LET RECURSIVE rk(_)
                   rk(i) == IF Dominators(P, i) = {} THEN 1 ELSE 1 + Max({ rk(j) : j \in Dominators(P, i) })
               IN [ i \in DOMAIN P |-> rk(i) ]
\* implementation-shaped: pairwise pass for i < j only (one comparator call per unordered pair), counters and
\* dominated-lists attributed from its verdict, then front peeling
Flag(P, i, j) == ParetoScan(P[i], P[j])
Counter0(P) == [ q \in DOMAIN P |->
   Cardinality({ i \in DOMAIN P : i < q /\ Flag(P, i, q) = 1 }) +
   Cardinality({ j \in DOMAIN P : q < j /\ Flag(P, q, j) = 2 }) ]
DomList(P) == [ p \in DOMAIN P |->
   { j \in DOMAIN P : p < j /\ Flag(P, p, j) = 1 } \cup { i \in DOMAIN P : i < p /\ Flag(P, i, p) = 2 } ]
\* one peeling round: members of `front` release the solutions they dominate
PeelStep(P, front, k, cnt, rk) ==
  LET cnt2 == [ q \in DOMAIN P |-> cnt[q] - Cardinality({ p \in front : q \in DomList(P)[p] }) ]
      nxt  == { q \in DOMAIN P : rk[q] = 0 /\ cnt2[q] = 0 /\ \E p \in front : q \in DomList(P)[p] }
  IN [front |-> nxt, k |-> k + 1, cnt |-> cnt2, rk |-> [ q \in DOMAIN P |-> IF q \in nxt THEN k + 1 ELSE rk[q] ]]
RECURSIVE Peel(_, _, _, _, _)
Peel(P, front, k, cnt, rk) ==
  IF front = {} THEN rk ELSE LET s == PeelStep(P, front, k, cnt, rk) IN Peel(P, s.front, s.k, s.cnt, s.rk)
FastNDS(P) == LET c0 == Counter0(P)
                  f1 == { q \in DOMAIN P : c0[q] = 0 }
              IN Peel(P, f1, 1, c0, [ q \in DOMAIN P |-> IF q \in f1 THEN 1 ELSE 0 ])
\* ---------------------------------------------------------------- C03: crowding distance (exact rationals <<num, den>>, INF = <<1, 0>>)
INF == <<1, 0>>
ValsOf(F, d)  == { F[i].c[d] : i \in DOMAIN F }
ObjIdx(F)     == 1..Len(F[1].c)
NoTies(F)     == \A d \in ObjIdx(F) : Cardinality(ValsOf(F, d)) = Len(F)
Span(F, d)    == Max(ValsOf(F, d)) - Min(ValsOf(F, d))
IsExtreme(F, i) == \E d \in ObjIdx(F) : F[i].c[d] = Min(ValsOf(F, d)) \/ F[i].c[d] = Max(ValsOf(F, d))
\* values are given through a strictly increasing map val[d][rank] -> integer (fixed point), so gaps are exact
RatEq(a, b)  == a[1] * b[2] = b[1] * a[2] /\ (a[2] = 0) = (b[2] = 0)
RatLeq(a, b) == IF b[2] = 0 THEN TRUE ELSE IF a[2] = 0 THEN FALSE ELSE a[1] * b[2] <= b[1] * a[2]
RECURSIVE ProdSpan(_, _)
ProdSpan(F, S) == IF S = {} THEN 1 ELSE LET d == CHOOSE x \in S : TRUE IN Span(F, d) * ProdSpan(F, S \ {d})
GapAt(F, i, d) == Min({ v \in ValsOf(F, d) : v > F[i].c[d] }) - Max({ v \in ValsOf(F, d) : v < F[i].c[d] })
RECURSIVE SumNum(_, _, _)
SumNum(F, i, S) == IF S = {} THEN 0 ELSE LET d == CHOOSE x \in S : TRUE IN
                     GapAt(F, i, d) * ProdSpan(F, ObjIdx(F) \ {d}) + SumNum(F, i, S \ {d})
ExactCD(F, i) == IF Len(F) <= 2 \/ IsExtreme(F, i) THEN INF ELSE <<SumNum(F, i, ObjIdx(F)), ProdSpan(F, ObjIdx(F))>>
\* the property (F: front with integer-valued costs, cd: observed distances as rationals, same indexing)
CrowdingOK(F, cd) ==
  /\ DOMAIN cd = DOMAIN F
  /\ Len(F) <= 2 => \A i \in DOMAIN F : cd[i] = INF
  /\ (Len(F) >= 3 /\ NoTies(F)) => \A i \in DOMAIN F : RatEq(cd[i], ExactCD(F, i))
  /\ (Len(F) >= 3 /\ ~NoTies(F)) =>
        /\ \A i \in DOMAIN F : cd[i] = INF \/ (cd[i][1] >= 0 /\ cd[i][2] > 0 /\ cd[i][1] <= Len(F[1].c) * cd[i][2])
        /\ \A d \in ObjIdx(F) : /\ \E i \in DOMAIN F : F[i].c[d] = Min(ValsOf(F, d)) /\ cd[i] = INF
                                /\ \E i \in DOMAIN F : F[i].c[d] = Max(ValsOf(F, d)) /\ cd[i] = INF
\* ---------------------------------------------------------------- C03: truncation
\* P: sequence of records [k |-> design key, v |-> solution, front |-> Nat, cd |-> rational]; kept: sequence of indices into P
KeysOf(P) == { P[i].k : i \in DOMAIN P }
TruncOK(P, size, kept) ==
  LET keptIdx  == { kept[j] : j \in DOMAIN kept }
      keptKeys == { P[i].k : i \in keptIdx }
      dropped  == { i \in DOMAIN P : P[i].k \notin keptKeys }
  IN /\ keptIdx \subseteq DOMAIN P
     /\ Cardinality(keptIdx) = Len(kept)
     /\ Len(kept) = Min({size, Cardinality(KeysOf(P))})
     /\ Cardinality(keptKeys) = Len(kept)                                   \* each design at most once
     /\ \A s \in keptIdx, d \in dropped : P[s].front <= P[d].front           \* rank first
     /\ (Cardinality(KeysOf(P)) = Len(P)) =>                                 \* all designs distinct: crowding second
          \A s \in keptIdx, d \in dropped : P[s].front = P[d].front => RatLeq(P[d].cd, P[s].cd)
\* the consequence claimed by the property: no survivor is dominated by a discarded design
Elitist(P, kept) == LET keptIdx == { kept[j] : j \in DOMAIN kept } IN
                    \A s \in keptIdx, d \in DOMAIN P :
                      (P[d].k \notin { P[i].k : i \in keptIdx }) => ParetoCmp(P[d].v, P[s].v) # 1
\* ---------------------------------------------------------------- C03: tournament
TournOK(a, b, res) == /\ res \in {"a", "b"}
                      /\ a.front < b.front => res = "a"
                      /\ b.front < a.front => res = "b"
                      /\ (a.front = b.front /\ ParetoCmp(a.v, b.v) = 1) => res = "a"
                      /\ (a.front = b.front /\ ParetoCmp(a.v, b.v) = 2) => res = "b"
=============================================================================
