---------------------------- MODULE DesignsTrace ----------------------------
(* Validates projected outputs of artap's samplers (C12) and factorial / screening designs (C13) against DesignsOps. *)
EXTENDS DesignsOps, TLC, Json, IOUtils
Traces == JsonDeserialize(IOEnv.TRACE_FILE)
VARIABLES tid, l
Ev == Traces[tid][l]
\* diagnostic mode (ALLCLAUSES = "1", trace-mutation self-test only): a failing clause is reported and evaluation goes on, so that clauses
\* shadowed by an earlier one in the same conjunction are exercised too; in every registered check ALLCLAUSES = "0"
Clause(name, b) == IF b THEN TRUE ELSE PrintT(<<"FAIL", tid, l, name>>) /\ (IOEnv.ALLCLAUSES = "1")
Common(e) == /\ Clause("no-exception", e.exc = "")
             /\ Clause("one-coordinate-per-parameter", e.dims_ok)
             /\ Clause("inside-bounds", e.inbox)
DesignEv(e) ==
    CASE e.kind = "lhs"    -> Common(e) /\ Clause("sample-count", Len(e.m) = e.n) /\ Clause("one-sample-per-stratum", Latin(e.m, e.d))
      [] e.kind = "halton" -> Common(e) /\ Clause("sample-count", Len(e.m) = e.n) /\ Clause("exact-projection", e.exact)
                                        /\ Clause("radical-inverse-in-prime-bases", HaltonOK(e.m, e.d))
      [] e.kind = "grid"   -> Common(e) /\ Clause("exact-projection", e.exact) /\ Clause("full-grid-of-levels", GridOK(e.m, e.d, e.k))
      [] e.kind = "random" -> Common(e) /\ Clause("requested-number-of-designs", Len(e.m) = e.n)
      [] e.kind = "fullfact" -> Common(e) /\ Clause("exact-projection", e.exact)
                                          /\ Clause("every-combination-exactly-once",
                                                    IF \A j \in DOMAIN e.first : \A q \in DOMAIN e.first[j] : e.first[j][q] = q - 1
                                                    THEN FullFactOK(e.m, e.levels) ELSE FullFactBagOK(e.m, e.levels, e.first))
      [] e.kind = "pb"     -> IF e.supported
                              THEN Common(e) /\ Clause("exact-projection", e.exact) /\ Clause("plackett-burman-structure", PBOK(e.m, e.n))
                              ELSE Clause("unsupported-size-must-raise", e.exc # "")
      [] e.kind = "bb"     -> Common(e) /\ Clause("exact-projection", e.exact) /\ Clause("box-behnken-structure", BBOK(e.m, e.n))
      [] e.kind = "gsd"    -> \* build_gsd documents ValueError when the reduction is too large for the smallest factor
                              IF e.exc # "" THEN Clause("no-exception", e.may_raise)
                              ELSE /\ Clause("complementary-count", Len(e.ds) = e.ncomp)
                                   /\ Clause("generalized-subset-design", GSDOK(e.ds, e.levels, e.ncomp = e.reduction))
      [] OTHER -> Clause("known-design-kind", FALSE)
TInit == tid \in 1..Len(Traces) /\ l = 1
TNext == /\ l <= Len(Traces[tid])
         /\ IF Ev.ev = "design" THEN DesignEv(Ev) ELSE Clause("known-event", FALSE)
         /\ l' = l + 1 /\ UNCHANGED tid
TDone == l = Len(Traces[tid]) + 1
TReport == TDone => PrintT(<<"ACCEPT", tid>>)
=============================================================================
