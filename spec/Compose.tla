------------------------------- MODULE Compose -------------------------------
(* Extension: the specifications of the suite fit together.  C02 (ranks), C03 (environmental selection) and C09 (generation step)
   are stated in three modules; this one checks, over every small pool, the theorem that links them:

      pool ranked as C02 demands  /\  truncated by ANY outcome C03's TruncOK allows   =>   C09's StepOK and ElitistStep

   so that the three checks are not merely individually true of the code but jointly describe one NSGA-II generation.  It also
   checks that the front-peeling rank used by RunTrace (RankIn) is the rank characterised in C02 (1 + the largest rank of a
   dominator), and that a truncation violating rank-first is rejected (non-vacuity).  No state: constant-level ASSUMEs.   *)
EXTENDS RunOps, SequencesExt
CONSTANTS Vals, MaxPool
Costs == [1..2 -> Vals]
Member(k, c) == [v |-> k, c |-> c, m |-> 0]
Pool(f) == { Member(k, f[k]) : k \in DOMAIN f }
MemberOf(f, k) == Member(k, f[k])
\* C02's characterisation of the rank, stated directly
RankChar(R, rk) == \A x \in R : rk[x] = (IF DomIn(R, x) = {} THEN 1 ELSE 1 + Max({ rk[y] : y \in DomIn(R, x) }))
Ranked(f) == LET R == Pool(f)  rk == RankIn(R)
             IN [ k \in DOMAIN f |-> [k |-> k, v |-> Sol(MemberOf(f, k)), front |-> rk[MemberOf(f, k)], cd |-> <<0, 1>>] ]
AsSeq(f, K) == LET s == SetToSeq(K) IN [ j \in DOMAIN s |-> MemberOf(f, s[j]) ]
Linked(f, N) ==
   LET n == Len(f)  P == Ranked(f)
   IN \A K \in SUBSET (1..n) :
        TruncOK(P, N, SetToSeq(K)) =>
           \A p \in N..n :          \* the first p keys are the previous generation (at least N of them), the rest the evaluated offspring
              /\ StepOK(AsSeq(f, 1..p), AsSeq(f, (p + 1)..n), AsSeq(f, K), N)
              /\ ElitistStep(AsSeq(f, 1..p), AsSeq(f, K))
Pools == UNION { [1..n -> Costs] : n \in 2..MaxPool }
ASSUME PeelIsTheCharacterisedRank == \A f \in Pools : RankChar(Pool(f), RankIn(Pool(f)))
ASSUME SortThenTruncateIsAStep == \A f \in Pools : \A N \in 1..Len(f) : Linked(f, N)
\* non-vacuity: some truncation is allowed for every pool and size, and keeping a dominated design while dropping its dominator is not
ASSUME SomeTruncationAllowed == \A f \in Pools : \A N \in 1..Len(f) : \E K \in SUBSET (1..Len(f)) : TruncOK(Ranked(f), N, SetToSeq(K))
ASSUME RankFirstHasTeeth == LET f == << <<0, 0>>, <<1, 1>>, <<2, 2>> >> IN ~TruncOK(Ranked(f), 1, <<2>>) /\ ~StepOK(AsSeq(f, {1, 2}), AsSeq(f, {3}), AsSeq(f, {2, 3}), 2)
VARIABLE dummy
Init == dummy = 0
Next == UNCHANGED dummy
=============================================================================
