---- MODULE SurrogateGen ----
(* behaviour emitter: every accept / decline sequence for every train step, mode and initial trained state *)
EXTENDS Surrogate, Json
VARIABLES hist, t0
GInit == Init /\ hist = <<>> /\ t0 = trained
GNext == \E a \in BOOLEAN : Request(a) /\ hist' = Append(hist, a) /\ UNCHANGED t0
Emit == (nreq = MaxReq) => PrintT(<<"BEH", ToJson([ts |-> ts, mode |-> mode, trained0 |-> t0, accepts |-> hist])>>)
====
