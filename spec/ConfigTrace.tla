------------------------------ MODULE ConfigTrace ------------------------------
(* Replays recorded ConfigDictionary histories with the SAME Declare / Set actions of Config and compares the outcome of every call and,
   after every call, the value of every declared option read back through __getitem__.
   declare(n, value, vals, lo, up, out)   set(n, v, out)   get(n, out, value)   snapshot(values[[n, v]])                          *)
EXTENDS Config, Sequences, Json, IOUtils
Traces == JsonDeserialize(IOEnv.TRACE_FILE)
VARIABLES tid, l
Ev == Traces[tid][l]
\* diagnostic mode (ALLCLAUSES = "1", trace-mutation self-test only): a failing clause is reported and evaluation goes on, so that clauses
\* shadowed by an earlier one in the same conjunction are exercised too; in every registered check ALLCLAUSES = "0"
Clause(name, b) == IF b THEN TRUE ELSE PrintT(<<"FAIL", tid, l, name>>) /\ (IOEnv.ALLCLAUSES = "1")
AsSet(s) == IF s = <<NoneV>> THEN {NoneV} ELSE { s[i] : i \in DOMAIN s }
DeclareEv(e) == /\ Declare(e.n, [value |-> e.value, vals |-> AsSet(e.vals), lo |-> e.lo, up |-> e.up])
                /\ Clause("declare-outcome", e.out = last')
SetEv(e) == /\ Set(e.n, e.v) /\ Clause("set-outcome", e.out = last')
GetEv(e) == /\ Clause("get-unknown-raises", (e.n \notin DOMAIN decl) = (e.out = "KeyError"))
            /\ Clause("get-returns-stored-value", e.n \in DOMAIN decl => e.value = decl[e.n].value)
            /\ UNCHANGED vars
SnapshotEv(e) == /\ Clause("declared-options", { e.values[i][1] : i \in DOMAIN e.values } = DOMAIN decl)
                 /\ Clause("stored-values", \A i \in DOMAIN e.values : e.values[i][1] \in DOMAIN decl => e.values[i][2] = decl[e.values[i][1]].value)
                 /\ UNCHANGED vars
TInit == tid \in 1..Len(Traces) /\ l = 1 /\ Init
TNext == /\ l <= Len(Traces[tid])
         /\ CASE Ev.ev = "declare"  -> DeclareEv(Ev)
              [] Ev.ev = "set"      -> SetEv(Ev)
              [] Ev.ev = "get"      -> GetEv(Ev)
              [] Ev.ev = "snapshot" -> SnapshotEv(Ev)
              [] OTHER -> Clause("known-event", FALSE) /\ UNCHANGED vars
         /\ l' = l + 1 /\ UNCHANGED tid
TDone == l = Len(Traces[tid]) + 1
TReport == TDone => PrintT(<<"ACCEPT", tid>>)
=============================================================================
