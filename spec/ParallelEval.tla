---- MODULE ParallelEval ----
EXTENDS Integers, Sequences, FiniteSets, TLC
CONSTANTS NDesigns, NWorkers, MaxAttempts, Faults   \* Faults \subseteq {"transient","fatal"}
Designs == 1..NDesigns
Workers == 1..NWorkers
VARIABLES st, vec, costsFrom, attempts, failed, ncalls, nextv,
          pending, wpc, wd, lock, txn, rows, raised, pre
vars == <<st, vec, costsFrom, attempts, failed, ncalls, nextv, pending, wpc, wd, lock, txn, rows, raised, pre>>
Init == /\ pre \in [Designs -> BOOLEAN]                      \* TRUE: already evaluated before the batch
        /\ st = [d \in Designs |-> IF pre[d] THEN "EVALUATED" ELSE "EMPTY"]
        /\ vec = [d \in Designs |-> d]
        /\ costsFrom = [d \in Designs |-> IF pre[d] THEN d ELSE 0]
        /\ attempts = [d \in Designs |-> 0]
        /\ failed = <<>> /\ ncalls = [d \in Designs |-> 0] /\ nextv = NDesigns + 1
        /\ pending = [i \in 1..NDesigns |-> i]
        /\ wpc = [w \in Workers |-> "idle"] /\ wd = [w \in Workers |-> 0]
        /\ lock = 0 /\ txn = [w \in Workers |-> <<>>]
        /\ rows = [d \in Designs |-> <<>>] /\ raised = "none"
Take(w) == /\ wpc[w] = "idle" /\ pending # <<>> /\ raised = "none"
           /\ wd' = [wd EXCEPT ![w] = Head(pending)] /\ pending' = Tail(pending)
           /\ wpc' = [wpc EXCEPT ![w] = "job"]
           /\ UNCHANGED <<st, vec, costsFrom, attempts, failed, ncalls, nextv, lock, txn, rows, raised, pre>>
Begin(w) == /\ wpc[w] = "job"
            /\ LET d == wd[w] IN
               IF st[d] = "EVALUATED"
               THEN /\ wpc' = [wpc EXCEPT ![w] = "idle"] /\ UNCHANGED <<st, ncalls>>
               ELSE /\ st' = [st EXCEPT ![d] = "IN_PROGRESS"]
                    /\ ncalls' = [ncalls EXCEPT ![d] = @ + 1]           \* objective is entered
                    /\ wpc' = [wpc EXCEPT ![w] = "incall"]
            /\ UNCHANGED <<vec, costsFrom, attempts, failed, nextv, pending, wd, lock, txn, rows, raised, pre>>
ReturnOk(w) == /\ wpc[w] = "incall"
               /\ LET d == wd[w] IN
                  /\ costsFrom' = [costsFrom EXCEPT ![d] = vec[d]]
                  /\ st' = [st EXCEPT ![d] = "EVALUATED"]
               /\ wpc' = [wpc EXCEPT ![w] = "sync"]
               /\ UNCHANGED <<vec, attempts, failed, ncalls, nextv, pending, wd, lock, txn, rows, raised, pre>>
ReturnTransient(w) == /\ "transient" \in Faults /\ wpc[w] = "incall"
               /\ LET d == wd[w] IN
                  /\ failed' = Append(failed, vec[d])
                  /\ vec' = [vec EXCEPT ![d] = nextv] /\ nextv' = nextv + 1
                  /\ st' = [st EXCEPT ![d] = "EMPTY"]
                  /\ attempts' = [attempts EXCEPT ![d] = @ + 1]
                  /\ IF attempts[d] + 1 = MaxAttempts
                     THEN /\ raised' = "RuntimeError" /\ wpc' = [wpc EXCEPT ![w] = "dead"]
                     ELSE /\ raised' = raised /\ wpc' = [wpc EXCEPT ![w] = "job"]
               /\ UNCHANGED <<costsFrom, ncalls, pending, wd, lock, txn, rows, pre>>
ReturnFatal(w) == /\ "fatal" \in Faults /\ wpc[w] = "incall"
               /\ raised' = "Other" /\ wpc' = [wpc EXCEPT ![w] = "dead"]
               /\ UNCHANGED <<st, vec, costsFrom, attempts, failed, ncalls, nextv, pending, wd, lock, txn, rows, pre>>
SyncBegin(w) == /\ wpc[w] = "sync" /\ lock = 0
                /\ lock' = w /\ txn' = [txn EXCEPT ![w] = <<vec[wd[w]], costsFrom[wd[w]], st[wd[w]]>>]
                /\ wpc' = [wpc EXCEPT ![w] = "commit"]
                /\ UNCHANGED <<st, vec, costsFrom, attempts, failed, ncalls, nextv, pending, wd, rows, raised, pre>>
Commit(w) == /\ wpc[w] = "commit"
             /\ rows' = [rows EXCEPT ![wd[w]] = txn[w]] /\ lock' = 0
             /\ wpc' = [wpc EXCEPT ![w] = "idle"]
             /\ UNCHANGED <<st, vec, costsFrom, attempts, failed, ncalls, nextv, pending, wd, txn, raised, pre>>
Next == \E w \in Workers : Take(w) \/ Begin(w) \/ ReturnOk(w) \/ ReturnTransient(w) \/ ReturnFatal(w) \/ SyncBegin(w) \/ Commit(w)
Spec == Init /\ [][Next]_vars
Quiescent == pending = <<>> /\ \A w \in Workers : wpc[w] = "idle"
\* ---- properties ----
AtMostOnceOnEvaluated == \A d \in Designs : pre[d] => ncalls[d] = 0
AttemptBound == \A d \in Designs : attempts[d] <= MaxAttempts /\ ncalls[d] <= MaxAttempts
FailedAccounting == Len(failed) = attempts[1] + (IF NDesigns >= 2 THEN attempts[2] ELSE 0) + (IF NDesigns >= 3 THEN attempts[3] ELSE 0) + (IF NDesigns >= 4 THEN attempts[4] ELSE 0)
Pairing == \A d \in Designs : st[d] = "EVALUATED" => costsFrom[d] = vec[d]
RowsFinal == \A d \in Designs : rows[d] # <<>> => rows[d] = <<vec[d], costsFrom[d], "EVALUATED">>
SerialEquivalent == (Quiescent /\ raised = "none") =>
     \A d \in Designs : /\ st[d] = "EVALUATED" /\ costsFrom[d] = vec[d]
                        /\ (~pre[d] => (ncalls[d] = attempts[d] + 1 /\ rows[d] = <<vec[d], vec[d], "EVALUATED">>))
ExactlyOnceNoFaults == (Quiescent /\ Faults = {}) => \A d \in Designs : ncalls[d] = (IF pre[d] THEN 0 ELSE 1)
RaiseLaw == (raised = "RuntimeError") => \E d \in Designs : attempts[d] = MaxAttempts
NotMarkedOnFatal == \A w \in Workers : (wpc[w] = "dead" /\ raised = "Other") => st[wd[w]] # "EVALUATED"
====
