CONSTANTS M = 2
Vals = {0,1,2}
Marks = {0,1}
MaxN = 3
SPECIFICATION Spec
INVARIANT InvRank
INVARIANT InvAllRanked
INVARIANT InvFront1
INVARIANT InvFrontsND
CHECK_DEADLOCK FALSE
