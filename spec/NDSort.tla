------------------------------- MODULE NDSort -------------------------------
(* C02 -- Selector.fast_nondominated_sorting as a state machine: Pairwise (the i<j pass fills counters and
   dominated-lists), then one Peel action per front.  Checked against the declarative rank characterisation
   for every population (as a sequence: every input order) over the bounded domain.                        *)
EXTENDS SortOps
CONSTANTS M, Vals, Marks, MaxN
Vec == [c : [1..M -> Vals], m : Marks]
Pops == UNION { [1..k -> Vec] : k \in 1..MaxN }
VARIABLES pop, phase, front, k, cnt, rk
vars == <<pop, phase, front, k, cnt, rk>>
Init == /\ pop \in Pops /\ phase = "unsorted" /\ front = {} /\ k = 0
        /\ cnt = [ q \in DOMAIN pop |-> 0 ] /\ rk = [ q \in DOMAIN pop |-> 0 ]
Pairwise == /\ phase = "unsorted"
            /\ cnt' = Counter0(pop)
            /\ front' = { q \in DOMAIN pop : cnt'[q] = 0 }
            /\ rk' = [ q \in DOMAIN pop |-> IF q \in front' THEN 1 ELSE 0 ]
            /\ k' = 1 /\ phase' = "peeling" /\ UNCHANGED pop
PeelFront == /\ phase = "peeling" /\ front # {}
             /\ LET s == PeelStep(pop, front, k, cnt, rk) IN
                front' = s.front /\ k' = s.k /\ cnt' = s.cnt /\ rk' = s.rk
             /\ UNCHANGED <<pop, phase>>
Finish == /\ phase = "peeling" /\ front = {} /\ phase' = "sorted" /\ UNCHANGED <<pop, front, k, cnt, rk>>
Next == Pairwise \/ PeelFront \/ Finish
Spec == Init /\ [][Next]_vars
Sorted == phase = "sorted"
InvRank      == Sorted => RankOK(pop, rk) /\ rk = TrueRank(pop) /\ rk = FastNDS(pop)
InvAllRanked == Sorted => \A i \in DOMAIN pop : rk[i] >= 1
InvFront1    == Sorted => { i \in DOMAIN pop : rk[i] = 1 } = { i \in DOMAIN pop : Dominators(pop, i) = {} }
InvFrontsND  == Sorted => \A i, j \in DOMAIN pop : rk[i] = rk[j] => ParetoCmp(pop[i], pop[j]) = 0
\* while peeling: every assigned rank is already final and counters never go negative
InvPartial   == phase = "peeling" => \A i \in DOMAIN pop : (rk[i] # 0 => rk[i] = TrueRank(pop)[i]) /\ cnt[i] >= 0
=============================================================================
