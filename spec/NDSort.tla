---- MODULE NDSort ----
EXTENDS Dominance, TLC, FiniteSetsExt
CONSTANTS MaxN
VARIABLES pop, ranks, phase
vars == <<pop, ranks, phase>>
Pops == UNION { [1..k -> Vec] : k \in 1..MaxN }
Dominators(P, i) == { j \in DOMAIN P : ParetoCmp(P[j], P[i]) = 1 }
\* the property: characterisation of the rank function
RankOK(P, rk) == /\ DOMAIN rk = DOMAIN P
                 /\ \A i \in DOMAIN P :
                      rk[i] = IF Dominators(P, i) = {} THEN 1
                              ELSE 1 + Max({ rk[j] : j \in Dominators(P, i) })
\* ---- implementation-shaped: pairwise pass for i<j only, then peeling ----
Flag(P, i, j) == ParetoScan(P[i], P[j])
Counter0(P) == [ q \in DOMAIN P |->
   Cardinality({ i \in DOMAIN P : i < q /\ Flag(P, i, q) = 1 }) +
   Cardinality({ j \in DOMAIN P : q < j /\ Flag(P, q, j) = 2 }) ]
DomList(P) == [ p \in DOMAIN P |->
   { j \in DOMAIN P : p < j /\ Flag(P, p, j) = 1 } \cup { i \in DOMAIN P : i < p /\ Flag(P, i, p) = 2 } ]
RECURSIVE Peel(_, _, _, _, _)
Peel(P, front, k, cnt, rk) ==
  IF front = {} THEN rk
  ELSE LET cnt2 == [ q \in DOMAIN P |-> cnt[q] - Cardinality({ p \in front : q \in DomList(P)[p] }) ]
           nxt  == { q \in DOMAIN P : rk[q] = 0 /\ cnt2[q] = 0 /\ \E p \in front : q \in DomList(P)[p] }
       IN Peel(P, nxt, k + 1, cnt2, [ q \in DOMAIN P |-> IF q \in nxt THEN k + 1 ELSE rk[q] ])
FastNDS(P) == LET c0 == Counter0(P)
                  f1 == { q \in DOMAIN P : c0[q] = 0 }
              IN Peel(P, f1, 1, c0, [ q \in DOMAIN P |-> IF q \in f1 THEN 1 ELSE 0 ])
Init == pop \in Pops /\ ranks = <<>> /\ phase = "unsorted"
Sort == phase = "unsorted" /\ ranks' = FastNDS(pop) /\ phase' = "sorted" /\ UNCHANGED pop
Next == Sort
Spec == Init /\ [][Next]_vars
Sorted == phase = "sorted"
InvRank      == Sorted => RankOK(pop, ranks)
InvAllRanked == Sorted => \A i \in DOMAIN pop : ranks[i] >= 1
InvFront1    == Sorted => { i \in DOMAIN pop : ranks[i] = 1 } = { i \in DOMAIN pop : Dominators(pop, i) = {} }
InvFrontsND  == Sorted => \A i, j \in DOMAIN pop : ranks[i] = ranks[j] => ParetoCmp(pop[i], pop[j]) = 0
====
