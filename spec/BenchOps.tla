------------------------------ MODULE BenchOps ------------------------------
(* C16 -- exact rational model of the multi-objective benchmark families on a lattice.

   A point is [pos |-> <<p_1..p_{m-1}>>, dist |-> <<q_1..q_k>>]:
     dist: the last k ("distance") variables in quarter units 0..4 (x = q/4); there (x - 1/2)^2 = (q-2)^2/16 and
           cos(20 pi (x - 1/2)) = +1 for even q, -1 for odd q, so the distance function g is an exact rational;
     pos:  the first m-1 ("position") variables as triples <<c, s, d>>:
           DTLZ2-4: cos(x pi/2) = c/d, sin(x pi/2) = s/d with c^2 + s^2 = d^2 (0, 1 and Pythagorean angles: every
                    position-variable value class, not only x = 0.5);  DTLZ1: x = c/d, 1 - x = s/d with c + s = d.
   Objective i (1-based) of an m-objective problem:  factor(g) * prod_{j <= m-i} first(p_j) * (i > 1: second(p_{m-i+1})).
   Every objective is therefore a rational <<num, den>>; the family identities become integer identities.       *)
EXTENDS Integers, Sequences, FiniteSets
RECURSIVE SumSq(_, _)
SumSq(q, i) == IF i > Len(q) THEN 0 ELSE (q[i] - 2) * (q[i] - 2) + SumSq(q, i + 1)
RECURSIVE OddCount(_, _)
OddCount(q, i) == IF i > Len(q) THEN 0 ELSE (IF q[i] % 2 = 1 THEN 1 ELSE 0) + OddCount(q, i + 1)
\* 16 * g
G24x16(q) == SumSq(q, 1)                                   \* DTLZ2, DTLZ4: g = sum (x - 1/2)^2
G13x16(q) == 100 * SumSq(q, 1) + 3200 * OddCount(q, 1)     \* DTLZ1, DTLZ3: g = 100 (k + sum ((x-1/2)^2 - cos(20 pi (x-1/2))))
Gx16(family, q) == IF family \in {"dtlz1", "dtlz3"} THEN G13x16(q) ELSE G24x16(q)
RECURSIVE ProdFirst(_, _)
ProdFirst(p, n) == IF n = 0 THEN 1 ELSE p[n][1] * ProdFirst(p, n - 1)
RECURSIVE ProdDen(_, _)
ProdDen(p, n) == IF n = 0 THEN 1 ELSE p[n][3] * ProdDen(p, n - 1)
\* numerator / denominator of objective i (without the g factor)
ShapeNum(p, m, i) == ProdFirst(p, m - i) * (IF i > 1 THEN p[m - i + 1][2] ELSE 1)
ShapeDen(p, m, i) == ProdDen(p, m - i) * (IF i > 1 THEN p[m - i + 1][3] ELSE 1)
\* exact objective as <<num, den>>
Objective(family, pt, m, i) ==
    LET g16 == Gx16(family, pt.dist) IN
    <<ShapeNum(pt.pos, m, i) * (16 + g16), ShapeDen(pt.pos, m, i) * (IF family = "dtlz1" THEN 32 ELSE 16)>>
RatEq(a, b) == a[1] * b[2] = b[1] * a[2] /\ a[2] > 0 /\ b[2] > 0
\* comparison without cross-multiplication (32-bit integers): the observation is a reduced fraction
RECURSIVE GCD(_, _)
GCD(a, b) == IF b = 0 THEN a ELSE GCD(b, a % b)
RatEqReduced(obs, exp) == LET g == GCD(exp[1], exp[2]) IN obs[1] = exp[1] \div g /\ obs[2] = exp[2] \div g
\* ---- ZDT1 (30 variables, quarter units): g = 1 + 9 * mean(x_2..x_n) = (116 + 9 * sum q) / 116 ----
RECURSIVE SumFrom(_, _)
SumFrom(q, i) == IF i > Len(q) THEN 0 ELSE q[i] + SumFrom(q, i + 1)
ZdtGx116(q) == 116 + 9 * SumFrom(q, 2)
=============================================================================
