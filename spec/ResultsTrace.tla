---------------------------- MODULE ResultsTrace ----------------------------
(* Validates the return values of Results methods on a real Problem whose individuals were recorded by the harness, and
   the values of gd / epsilon_add on integer point sets.
   record(k, tag, vec, costs)   query(name, ..., result)   indicator(name, ref, comp, value...)                   *)
EXTENDS ResultsOps, TLC, Json, IOUtils
Traces == JsonDeserialize(IOEnv.TRACE_FILE)
VARIABLES tid, l, recs
Ev == Traces[tid][l]
\* diagnostic mode (ALLCLAUSES = "1", trace-mutation self-test only): a failing clause is reported and evaluation goes on, so that clauses
\* shadowed by an earlier one in the same conjunction are exercised too; in every registered check ALLCLAUSES = "0"
Clause(name, b) == IF b THEN TRUE ELSE PrintT(<<"FAIL", tid, l, name>>) /\ (IOEnv.ALLCLAUSES = "1")
Dir == <<"min", "max">>
RowOf(r) == r.vec \o r.costs
QueryEv(e) ==
    /\ Clause("no-exception", e.exc = "")
    /\ CASE e.name = "population" ->
              Clause("population-is-tag-in-recording-order",
                     e.result = [ j \in DOMAIN Population(recs, TagOrLast(recs, e.tag)) |-> Population(recs, TagOrLast(recs, e.tag))[j].k ])
         [] e.name = "table" ->
              Clause("table-keeps-rows-paired", SameBag(e.result, [ i \in DOMAIN recs |-> RowOf(recs[i]) ]))
         [] e.name = "costs" ->
              Clause("costs-in-recording-order", \A c \in DOMAIN e.result : e.result[c] = [ i \in DOMAIN recs |-> recs[i].costs[c] ])
         [] e.name = "parameters" ->
              Clause("parameters-complete", SameBag(e.result, [ i \in DOMAIN recs |-> recs[i].vec ]))
         [] e.name = "goal_on_parameter" ->
              Clause("goal-on-parameter-paired",
                     ListingOK(PairsOf(Population(recs, TagOrLast(recs, e.tag)), e.p, e.c), e.result[1], e.result[2], e.sorted))
         [] e.name = "parameter_on_goal" ->
              Clause("parameter-on-goal-paired",
                     LET pop == Population(recs, TagOrLast(recs, e.tag))
                         pairs == [ j \in DOMAIN pop |-> <<pop[j].costs[e.c], pop[j].vec[e.p]>> ]
                     IN ListingOK(pairs, e.result[1], e.result[2], e.sorted))
         [] e.name = "parameter_on_parameter" ->
              Clause("parameter-on-parameter-paired",
                     LET pop == Population(recs, TagOrLast(recs, e.tag))
                         pairs == [ j \in DOMAIN pop |-> <<pop[j].vec[e.p], pop[j].vec[e.p2]>> ]
                     IN ListingOK(pairs, e.result[1], e.result[2], e.sorted))
         [] e.name = "goal_on_index" ->
              Clause("goal-on-index",
                     LET pop == Population(recs, TagOrLast(recs, e.tag)) IN
                     /\ e.result[1] = [ j \in DOMAIN pop |-> j - 1 ]
                     /\ e.result[2] = [ j \in DOMAIN pop |-> pop[j].costs[e.c] ])
         [] e.name = "parameter_on_index" ->
              Clause("parameter-on-index",
                     LET pop == Population(recs, TagOrLast(recs, e.tag)) IN
                     /\ e.result[1] = [ j \in DOMAIN pop |-> j - 1 ]
                     /\ e.result[2] = [ j \in DOMAIN pop |-> pop[j].vec[e.p] ])
         [] e.name = "goal_on_index_all" ->
              Clause("goal-on-index-all-goals",
                     LET pop == Population(recs, TagOrLast(recs, e.tag)) IN
                     /\ e.result[1] = [ j \in DOMAIN pop |-> j - 1 ]
                     /\ \A c \in 1..2 : e.result[c + 1] = [ j \in DOMAIN pop |-> pop[j].costs[c] ])
         [] e.name = "parameter_on_index_all" ->
              Clause("parameter-on-index-all-parameters",
                     LET pop == Population(recs, TagOrLast(recs, e.tag)) IN
                     /\ e.result[1] = [ j \in DOMAIN pop |-> j - 1 ]
                     /\ \A p \in 1..2 : e.result[p + 1] = [ j \in DOMAIN pop |-> pop[j].vec[p] ])
         [] e.name = "pareto_individuals" ->
              Clause("pareto-individuals",
                     LET pop == Population(recs, TagOrLast(recs, e.tag))
                         sel == SelectSeq(pop, LAMBDA r : r.k \in SeqRange(e.front1))
                     IN e.result = [ j \in DOMAIN sel |-> sel[j].k ])
         [] e.name = "population_ids" ->
              Clause("population-ids", SeqRange(e.result) = { recs[i].tag : i \in DOMAIN recs } /\ Len(e.result) = Cardinality({ recs[i].tag : i \in DOMAIN recs }))
         [] e.name = "names" ->
              Clause("names-and-indices", e.result = <<"p1", "p2", "c1", "c2", 2, 2, 0, 1, 0, 1>>)
         [] e.name = "find_optimum" ->
              /\ Clause("optimum-is-recorded", e.result \in 1..Len(recs))
              /\ Clause("optimum-is-extremal", e.result \in 1..Len(recs) => IsOptimum(recs, e.result, e.c, Dir[e.c]))
         [] e.name = "pareto_front" ->
              Clause("pareto-front-costs",
                     LET pop == Population(recs, TagOrLast(recs, e.tag))
                         sel == SelectSeq(pop, LAMBDA r : r.k \in SeqRange(e.front1))
                     IN \A c \in DOMAIN e.result : e.result[c] = [ j \in DOMAIN sel |-> sel[j].costs[c] ])
         [] OTHER -> Clause("known-query", FALSE)
    /\ UNCHANGED recs
RECURSIVE SumRoots(_, _, _)
SumRoots(comp, ref, j) == IF j > Len(comp) THEN 0 ELSE ISqrt(NearestSq(comp[j], ref) * 1000000) + SumRoots(comp, ref, j + 1)
IndicatorEv(e) ==
    /\ Clause("no-exception", e.exc = "")
    /\ IF e.name = "eps"
       THEN /\ Clause("epsilon-is-max-min-max", e.integral /\ e.value = EpsAdd(e.ref, e.comp))
            /\ Clause("epsilon-non-negative", e.value >= 0)
       ELSE \* value = round(gd * 1000 * |comp|): sum of the nearest distances in units of 1e-3
            LET S == SumRoots(e.comp, e.ref, 1) IN
            /\ Clause("gd-is-mean-nearest-distance", e.value >= S - 1 /\ e.value <= S + Len(e.comp) + 1)
            /\ Clause("gd-zero-iff-all-reference-points", (e.value = 0) = (\A j \in DOMAIN e.comp : NearestSq(e.comp[j], e.ref) = 0))
    /\ UNCHANGED recs
RecordEv(e) ==
    /\ Clause("record-keys-in-order", e.k = Len(recs) + 1)
    /\ recs' = Append(recs, [k |-> e.k, tag |-> e.tag, vec |-> e.vec, costs |-> e.costs])
\* the recorded data changes without changing its size: an individual is moved to another generation (re-tagged)
RetagEv(e) ==
    /\ Clause("retag-known-record", e.k \in DOMAIN recs)
    /\ recs' = [recs EXCEPT ![e.k].tag = e.tag]
\* ... or an individual is replaced by another one at the same position of the record list (a re-run into the same problem object)
ReplaceEv(e) ==
    /\ Clause("replace-known-record", e.k \in DOMAIN recs)
    /\ recs' = [recs EXCEPT ![e.k] = [k |-> e.k, tag |-> e.tag, vec |-> e.vec, costs |-> e.costs]]
TInit == tid \in 1..Len(Traces) /\ l = 1 /\ recs = <<>>
TNext == /\ l <= Len(Traces[tid])
         /\ CASE Ev.ev = "record"    -> RecordEv(Ev)
              [] Ev.ev = "retag"     -> RetagEv(Ev)
              [] Ev.ev = "replace"   -> ReplaceEv(Ev)
              [] Ev.ev = "query"     -> QueryEv(Ev)
              [] Ev.ev = "indicator" -> IndicatorEv(Ev)
              [] OTHER -> Clause("known-event", FALSE) /\ UNCHANGED recs
         /\ l' = l + 1 /\ UNCHANGED tid
TDone == l = Len(Traces[tid]) + 1
TReport == TDone => PrintT(<<"ACCEPT", tid>>)
=============================================================================
