---- MODULE StoreGen ----
(* behaviour emitter for the store model: histories of mutate / exec / commit over a few ids and connections *)
EXTENDS Store, Json
VARIABLE hist
GInit == Init /\ hist = <<>>
GNext == \/ \E d \in Ids : Mutate(d) /\ hist' = Append(hist, [a |-> "mutate", d |-> d, c |-> 0])
         \/ \E c \in Conns, d \in Ids : Exec(c, d) /\ hist' = Append(hist, [a |-> "exec", d |-> d, c |-> c])
         \/ \E c \in Conns : Commit(c) /\ hist' = Append(hist, [a |-> "commit", d |-> 0, c |-> c])
Emit == (nops = MaxOps) => PrintT(<<"BEH", ToJson(hist)>>)
====
