------------------------------- MODULE JobGen -------------------------------
(* Behaviour emitter for the Job model.  `hist` records what a harness can steer: the outcome of every objective call
   (fault scripts, C06) and the order in which objective returns and store synchronisations happen (schedules, C07).  *)
EXTENDS Job, Json
VARIABLE hist
GInit == Init /\ hist = <<>>
GNext == \/ Restart /\ hist' = Append(hist, [a |-> "restart", d |-> 0])
         \/ \E w \in Workers :
              \/ Take(w) /\ UNCHANGED hist
              \/ Begin(w) /\ hist' = IF Skips(wd[w]) /\ attempts[wd[w]] = 0 THEN hist
                                         ELSE Append(hist, [a |-> "begin", d |-> wd[w]])     \* Job.evaluate entered: constraints hook
              \/ ReturnOk(w)        /\ hist' = Append(hist, [a |-> "ok", d |-> wd[w]])
              \/ ReturnTransient(w) /\ hist' = Append(hist, [a |-> "transient", d |-> wd[w]])
              \/ ReturnFatal(w)     /\ hist' = Append(hist, [a |-> "fatal", d |-> wd[w]])
              \/ SyncBegin(w) /\ UNCHANGED hist
              \/ Commit(w)          /\ hist' = Append(hist, [a |-> "sync", d |-> wd[w]])
Terminal == \/ Quiescent /\ (round = Repeats \/ raised # "none")
            \/ (Mode = "serial" /\ raised # "none")
Emit == Terminal => PrintT(<<"BEH", ToJson([pre |-> pre, hist |-> hist])>>)
\* the emitter only prints at states where every worker is at rest or dead
EmitQuiet == Terminal /\ (\A w \in Workers : wpc[w] \in {"idle", "dead"}) => PrintT(<<"BEH", ToJson([pre |-> pre, hist |-> hist])>>)
=============================================================================
