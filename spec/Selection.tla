------------------------------ MODULE Selection ------------------------------
(* C03 -- environmental selection as a state machine: a population is ranked (true Pareto ranks, exact crowding
   distance per front), then truncated to `size` by ANY outcome the property's relation TruncOK allows, then a binary
   tournament is played between two survivors by ANY outcome TournOK allows.  TLC checks the "hence" of the property:
   every allowed truncation is elitist (no survivor dominated by a discarded design), survivors have the right count,
   the reference implementation order (front ascending, crowding descending) is one of the allowed outcomes, the exact
   crowding value lies in [0, M], and a tournament winner is never dominated by the loser at equal rank.        *)
EXTENDS SortOps, Sequences
CONSTANTS M, Vals, Marks, MaxN
Vec == [c : [1..M -> Vals], m : Marks]
Pops == UNION { [1..k -> Vec] : k \in 1..MaxN }
VARIABLES pop, phase, P, kept, size, win
vars == <<pop, phase, P, kept, size, win>>
\* members of front f as a sequence (population order) and the exact crowding distance of member i inside its front
FrontIdx(rk, f) == SelectSeq([ i \in 1..Len(rk) |-> i ], LAMBDA i : rk[i] = f)
CDOf(rk, i) == LET idx == FrontIdx(rk, rk[i])
                   F   == [ j \in DOMAIN idx |-> pop[idx[j]] ]
                   pos == CHOOSE j \in DOMAIN idx : idx[j] = i
               IN ExactCD(F, pos)
Init == pop \in Pops /\ phase = "new" /\ P = <<>> /\ kept = <<>> /\ size = 0 /\ win = 0
Rank == /\ phase = "new"
        /\ LET rk == TrueRank(pop) IN
           P' = [ i \in DOMAIN pop |-> [k |-> i, v |-> pop[i], front |-> rk[i], cd |-> CDOf(rk, i)] ]
        /\ phase' = "ranked" /\ UNCHANGED <<pop, kept, size, win>>
SeqsOver(S, n) == { s \in [1..n -> S] : \A a, b \in 1..n : a # b => s[a] # s[b] }
Truncate(sz) == /\ phase = "ranked"
                /\ \E n \in 0..Len(P) : \E ks \in SeqsOver(DOMAIN P, n) :
                     TruncOK(P, sz, ks) /\ kept' = ks
                /\ size' = sz /\ phase' = "truncated" /\ UNCHANGED <<pop, P, win>>
Tournament == /\ phase = "truncated" /\ Len(kept) >= 2
              /\ \E a, b \in DOMAIN kept : a # b /\ \E r \in {"a", "b"} :
                    /\ TournOK(P[kept[a]], P[kept[b]], r)
                    /\ win' = [a |-> kept[a], b |-> kept[b], w |-> IF r = "a" THEN kept[a] ELSE kept[b]]
              /\ phase' = "played" /\ UNCHANGED <<pop, P, kept, size>>
Next == Rank \/ (\E sz \in 1..(MaxN + 1) : Truncate(sz)) \/ Tournament
Spec == Init /\ [][Next]_vars
\* reference: sort by (front asc, crowding desc) and slice -- what nondominated_truncate does for distinct designs
RefOrderOK(ks) == \A a, b \in DOMAIN ks : a < b =>
                     \/ P[ks[a]].front < P[ks[b]].front
                     \/ (P[ks[a]].front = P[ks[b]].front /\ RatLeq(P[ks[b]].cd, P[ks[a]].cd))
\* ---- properties ----
TruncElitist == phase \in {"truncated", "played"} => Elitist(P, kept)
TruncCount   == phase \in {"truncated", "played"} => Len(kept) = Min({size, Len(pop)})
RefAllowed   == phase = "ranked" =>
                  \A sz \in 1..(MaxN + 1) : \E ks \in SeqsOver(DOMAIN P, Min({sz, Len(P)})) :
                        RefOrderOK(ks) /\ TruncOK(P, sz, ks)
                        /\ \A d \in DOMAIN P : (\A j \in DOMAIN ks : ks[j] # d) =>
                              \A j \in DOMAIN ks : P[ks[j]].front < P[d].front
                                                   \/ (P[ks[j]].front = P[d].front /\ RatLeq(P[d].cd, P[ks[j]].cd))
CDInRange    == phase # "new" => \A i \in DOMAIN P : P[i].cd = INF \/ (P[i].cd[1] >= 0 /\ P[i].cd[1] <= M * P[i].cd[2])
\* the tournament never returns the worse-ranked candidate nor, at equal rank, the dominated one
WinnerSound  == phase = "played" =>
                  LET lo == IF win.w = win.a THEN win.b ELSE win.a IN
                  /\ win.w \in {win.a, win.b}
                  /\ P[win.w].front <= P[lo].front
                  /\ (P[win.w].front = P[lo].front => ~Dominates(P[lo].v, P[win.w].v))
=============================================================================
