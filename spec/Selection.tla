---- MODULE Selection ----
EXTENDS Dominance, TLC, FiniteSetsExt
\* ---------- crowding distance as an exact rational <<num, den>>, or INF ----------
INF == <<1, 0>>
ValsOf(F, d) == { F[i].c[d] : i \in DOMAIN F }
NoTies(F) == \A d \in Idx : Cardinality(ValsOf(F, d)) = Len(F)
Span(F, d) == Max(ValsOf(F, d)) - Min(ValsOf(F, d))
Boundary(F, i) == \E d \in Idx : F[i].c[d] = Min(ValsOf(F, d)) \/ F[i].c[d] = Max(ValsOf(F, d))
Gap(F, i, d) == Min({ v \in ValsOf(F, d) : v > F[i].c[d] }) - Max({ v \in ValsOf(F, d) : v < F[i].c[d] })
\* sum over objectives of gap/range with common denominator D = product of the ranges (all > 0 without ties, n >= 3)
RECURSIVE Prod(_, _)
Prod(F, S) == IF S = {} THEN 1 ELSE LET d == CHOOSE x \in S : TRUE IN Span(F, d) * Prod(F, S \ {d})
RECURSIVE SumNum(_, _, _)
SumNum(F, i, S) == IF S = {} THEN 0 ELSE LET d == CHOOSE x \in S : TRUE IN
                     Gap(F, i, d) * Prod(F, Idx \ {d}) + SumNum(F, i, S \ {d})
ExactCD(F, i) == IF Len(F) <= 2 \/ Boundary(F, i) THEN INF ELSE <<SumNum(F, i, Idx), Prod(F, Idx)>>
RatEq(a, b) == a[1] * b[2] = b[1] * a[2] /\ (a[2] = 0) = (b[2] = 0)
RatLeq(a, b) == IF b[2] = 0 THEN TRUE ELSE IF a[2] = 0 THEN FALSE ELSE a[1] * b[2] <= b[1] * a[2]
\* the property (F: front as a sequence of vectors, cd: observed distances, same indexing)
CrowdingOK(F, cd) ==
  /\ DOMAIN cd = DOMAIN F
  /\ Len(F) <= 2 => \A i \in DOMAIN F : cd[i] = INF
  /\ (Len(F) >= 3 /\ NoTies(F)) => \A i \in DOMAIN F : RatEq(cd[i], ExactCD(F, i))
  /\ (Len(F) >= 3 /\ ~NoTies(F)) =>
        /\ \A i \in DOMAIN F : cd[i] = INF \/ (cd[i][1] >= 0 /\ cd[i][2] > 0 /\ cd[i][1] <= M * cd[i][2])
        /\ \A d \in Idx : /\ \E i \in DOMAIN F : F[i].c[d] = Min(ValsOf(F, d)) /\ cd[i] = INF
                          /\ \E i \in DOMAIN F : F[i].c[d] = Max(ValsOf(F, d)) /\ cd[i] = INF
\* ---------- truncation ----------
\* P: sequence of records [k: design key, v: Vec, front: Nat, cd: rational]; kept: set of indices
Keys(P) == { P[i].k : i \in DOMAIN P }
TruncOK(P, size, kept) ==
  LET keptKeys == { P[i].k : i \in kept }
      dropped  == { i \in DOMAIN P : P[i].k \notin keptKeys }
  IN /\ kept \subseteq DOMAIN P
     /\ Cardinality(kept) = Min({size, Cardinality(Keys(P))})
     /\ Cardinality(keptKeys) = Cardinality(kept)                       \* each design at most once
     /\ \A s \in kept, d \in dropped : P[s].front <= P[d].front          \* rank first
     /\ (Cardinality(Keys(P)) = Len(P)) =>                               \* all designs distinct: crowding second
          \A s \in kept, d \in dropped : P[s].front = P[d].front => RatLeq(P[d].cd, P[s].cd)
\* consequence claimed by the property
Elitist(P, kept) == \A s \in kept, d \in DOMAIN P :
                      (P[d].k \notin { P[i].k : i \in kept }) => ParetoCmp(P[d].v, P[s].v) # 1
\* ---------- tournament ----------
TournOK(a, b, res) == /\ res \in {"a", "b"}
                      /\ a.front < b.front => res = "a"
                      /\ b.front < a.front => res = "b"
                      /\ (a.front = b.front /\ ParetoCmp(a.v, b.v) = 1) => res = "a"
                      /\ (a.front = b.front /\ ParetoCmp(a.v, b.v) = 2) => res = "b"
\* ---------- sanity model: the reference truncation satisfies TruncOK and implies Elitist ----------
CONSTANT MaxN
VARIABLES pop, done
Dominators(P, i) == { j \in DOMAIN P : ParetoCmp(P[j], P[i]) = 1 }
Rank(P) == LET RECURSIVE rk(_)
               rk(i) == IF Dominators(P, i) = {} THEN 1 ELSE 1 + Max({ rk(j) : j \in Dominators(P, i) })
           IN [ i \in DOMAIN P |-> rk(i) ]
Init == pop \in UNION { [1..k -> Vec] : k \in 1..MaxN } /\ done = FALSE
Next == UNCHANGED <<pop, done>>
Spec == Init /\ [][Next]_<<pop, done>>
RefTruncSound ==
  LET r == Rank(pop)
      P == [ i \in DOMAIN pop |-> [k |-> i, v |-> pop[i], front |-> r[i], cd |-> INF] ]
  IN \A size \in 1..Len(pop) : \A kept \in SUBSET (DOMAIN pop) :
       (Cardinality(kept) = size /\ \A s \in kept, d \in (DOMAIN pop) \ kept : r[s] <= r[d])
         => (TruncOK(P, size, kept) /\ Elitist(P, kept))
\* every outcome allowed by TruncOK is elitist (the "hence" of the property)
TruncImpliesElitist ==
  LET r == Rank(pop)
      P == [ i \in DOMAIN pop |-> [k |-> i, v |-> pop[i], front |-> r[i], cd |-> INF] ]
  IN \A size \in 1..(Len(pop) + 1) : \A kept \in SUBSET (DOMAIN pop) : TruncOK(P, size, kept) => Elitist(P, kept)
\* crowding: the exact formula satisfies the relaxed clause shape (sanity of the two clauses)
ExactInRange == (Len(pop) >= 3 /\ NoTies(pop)) =>
   \A i \in DOMAIN pop : LET c == ExactCD(pop, i) IN c = INF \/ (c[1] >= 0 /\ c[1] <= M * c[2])
====
