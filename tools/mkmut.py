#!/venv/bin/python
"""tools/mkmut.py <out.patch> <repo-relative file> <old> <new> [occurrence]  -- write a unified diff replacing one occurrence."""
import difflib
import sys
out, rel, old, new = sys.argv[1:5]
occ = int(sys.argv[5]) if len(sys.argv) > 5 else 1
src = open("/repo/" + rel).read()
old = old.encode().decode("unicode_escape")
new = new.encode().decode("unicode_escape")
pos = -1
for _ in range(occ):
    pos = src.find(old, pos + 1)
    if pos < 0:
        sys.exit("old text not found (occurrence %d): %r" % (occ, old))
dst = src[:pos] + new + src[pos + len(old):]
diff = difflib.unified_diff(src.splitlines(True), dst.splitlines(True), "a/" + rel, "b/" + rel, n=3)
import os
os.makedirs(os.path.dirname(out), exist_ok=True)
open(out, "w").write("".join(diff))
print("wrote", out)
