#!/venv/bin/python
"""writes seeded/<id>/meta.json from notes.md, verified.txt and the catch results recorded in tools/seed_results.json"""
import json, os, re
root = os.path.join(os.path.dirname(os.path.abspath(__file__)), "..", "seeded")
res = json.load(open(os.path.join(os.path.dirname(os.path.abspath(__file__)), "seed_results.json")))
for d in sorted(os.listdir(root)):
    p = os.path.join(root, d)
    if not os.path.isfile(os.path.join(p, "patch.diff")):
        continue
    notes = open(os.path.join(p, "notes.md")).read() if os.path.exists(os.path.join(p, "notes.md")) else ""
    ver = open(os.path.join(p, "verified.txt")).read() if os.path.exists(os.path.join(p, "verified.txt")) else ""
    files = sorted(set(re.findall(r"^\+\+\+ b/(\S+)", open(os.path.join(p, "patch.diff")).read(), re.M)))
    r = res.get(d, {})
    meta = {
        "property": d.split("-")[0],
        "origin": "written by a fresh sub-agent that saw only the property text and a scratch worktree of /repo (nothing from /verif)",
        "files_changed": files,
        "what_it_changes_and_needs_to_manifest": " ".join(notes.split())[:1200],
        "confirmed_by_me": {"command": "seeded/verify.sh seeded/%s <related test files>" % d, "output": ver.strip().splitlines()[-4:]},
        "check_result": r,
    }
    json.dump(meta, open(os.path.join(p, "meta.json"), "w"), indent=1)
print("meta written")
