#!/bin/sh
# tools/saveseed.sh <Cnn> <tag>  -- copy a sub-agent's deliverables into seeded/, drop its worktree, run the property's check against it
p=$1; t=$2
cd "$(dirname "$0")/.."
[ -f /tmp/wtout/${p}${t}/notes.md ] || { echo "saveseed: /tmp/wtout/${p}${t}/notes.md missing -- the sub-agent has not finished"; exit 3; }
mkdir -p seeded/$p-$t
cp /tmp/wtout/${p}${t}/patch.diff /tmp/wtout/${p}${t}/demo.py /tmp/wtout/${p}${t}/notes.md seeded/$p-$t/ 2>/dev/null
git -C /repo worktree remove --force /tmp/wt/${p}${t} 2>/dev/null
./selftest seeded/$p-$t/patch.diff $p 2>&1 | tail -1
