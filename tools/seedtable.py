#!/venv/bin/python
"""tools/seedtable.py -- regenerate the seeded-change table of DESIGN.md (between the SEEDTABLE markers) from tools/seed_results.json"""
import json, os, re
here = os.path.dirname(os.path.abspath(__file__))
d = json.load(open(os.path.join(here, "seed_results.json")))
caught = sorted(k for k, v in d.items() if v["first_run"].startswith("caught"))
other = sorted(k for k, v in d.items() if not v["first_run"].startswith("caught"))
rounds = {}
for k, v in d.items():
    r = rounds.setdefault(k.split("-")[1], [0, 0])
    r[0] += 1
    r[1] += 0 if v["first_run"].startswith("caught") else 1
rows = ["| seed | first run | what was strengthened | now |", "|---|---|---|---|",
        "| " + ", ".join(caught) + " | caught | — | caught |"]
for k in other:
    v = d[k]
    rows.append("| %s | %s | %s | %s |" % (k, v["first_run"], v["strengthened"], v["now"].replace("caught: ", "caught — ")))
summary = ("\n  %d of %d were caught at once; %d were missed or ended in a machinery failure; **all %d are caught now** by the quick tier of the\n"
           "  property they were written against (`./selftest seeded/<id>/patch.diff <Cnn>` → exit 1). Not caught at first, per round: %s.\n"
           % (len(caught), len(d), len(other), len(d), ", ".join("%s %d/%d" % (r, rounds[r][1], rounds[r][0]) for r in sorted(rounds))))
block = "<!-- SEEDTABLE-BEGIN -->\n" + "\n".join(rows) + "\n" + summary + "<!-- SEEDTABLE-END -->"
p = os.path.join(here, "..", "DESIGN.md")
s = open(p).read()
s2 = re.sub(r"<!-- SEEDTABLE-BEGIN -->.*?<!-- SEEDTABLE-END -->", lambda m: block, s, flags=re.S)
open(p, "w").write(s2)
print("table rows:", len(rows) - 2, "changed:", s != s2)
