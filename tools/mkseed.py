#!/venv/bin/python
"""tools/mkseed.py <Cnn> <tag> -- prepare a seeded-change task for a fresh sub-agent: scratch worktree /tmp/wt/<Cnn><tag> of /repo and
/tmp/wtout/<Cnn><tag>/prompt.txt (property text + the ideas already used for this property, so that the new one differs).
The sub-agent sees nothing from /verif."""
import json, os, subprocess, sys
pid, tag = sys.argv[1], sys.argv[2]
here = os.path.dirname(os.path.abspath(__file__))
prop = next(json.loads(l) for l in open(os.path.join(here, "..", "properties.jsonl")) if json.loads(l)["id"] == pid)
wt, out = "/tmp/wt/%s%s" % (pid, tag), "/tmp/wtout/%s%s" % (pid, tag)
os.makedirs(out, exist_ok=True)
os.makedirs("/tmp/wt", exist_ok=True)
if not os.path.isdir(wt):
    subprocess.check_call(["git", "-C", "/repo", "worktree", "add", "--detach", wt, "HEAD"], stdout=subprocess.DEVNULL, stderr=subprocess.DEVNULL)
used = []
seeded = os.path.join(here, "..", "seeded")
for d in sorted(os.listdir(seeded)):
    if d.startswith(pid + "-") and os.path.exists(os.path.join(seeded, d, "notes.md")):
        used.append("  - " + " ".join(open(os.path.join(seeded, d, "notes.md")).read().split())[:520])
files = ", ".join(prop["anchors"]["files"])
prompt = f"""You are helping to evaluate a verification tool by playing the role of a developer who introduces a subtle regression.

Repository: a git worktree of the Python library "artap" (robust design optimization: NSGA-II, swarm algorithms, DoE generators, benchmark functions, surrogate wrappers) at {wt}. Work ONLY inside that directory (and write your deliverables to {out}/). Do not read or touch /repo, /verif or any other worktree. Python interpreter with all dependencies: /venv/bin/python (run things as `cd {wt} && PYTHONPATH={wt} /venv/bin/python ...` so that the worktree's artap is imported, and double check with `python -c "import artap; print(artap.__file__)"` that it is). There is no network.

The semantic property of the library that your change must BREAK:

  Title: {prop['title']}
  Statement: {prop['statement']}
  Quantified over: {prop['quantifier']['text']}
  Relevant files: {files}

Task: make ONE small source change to the library (under artap/, not under artap/tests/) that violates this property, while
  (a) the code still imports and runs, and
  (b) the existing test suite still passes exactly as before (run at least the test files that touch the changed code, e.g. `cd {wt} && PYTHONPATH={wt} /venv/bin/python -m pytest -q -p no:cacheprovider --timeout=900 artap/tests/<relevant files>`; a handful of tests already fail or are flaky on the unmodified tree for unrelated reasons (ZDT1 tests, test_surrogate_function, surrogate_smt) -- ignore those; compare before/after), and
  (c) the breakage is NOT something ordinary use exposes at once. It must need something specific to manifest: a particular interleaving, a fault at a particular point, a multi-step sequence of operations, an unusual-but-legal input (ties, duplicates, boundary values, a particular dimension/size, a specific option value), or two cooperating code sites that each look fine alone. Think of a realistic bug a maintainer could plausibly introduce during a refactoring or "optimisation" -- not sabotage such as raising an exception, and not something that changes behaviour on every call.

IMPORTANT: other developers already used the following ideas for this property; yours must be DIFFERENT in location and mechanism (a different function / code path / trigger condition):
{chr(10).join(used)}
Prefer a change in a part of the statement that the ideas above do not touch (the statement has several clauses), and a trigger that a reviewer reading the diff would not immediately think of.

Deliverables, written to {out}/ :
  1. patch.diff  -- `git diff` of your change (relative to the worktree's HEAD), applying cleanly with `git apply`.
  2. demo.py     -- a small standalone program (uses only the library's public classes/functions; run with PYTHONPATH pointing at a checkout) that exits 0 on the unmodified code and exits non-zero (assertion failure) WITH your change, demonstrating the violated property in terms of observable behaviour.
  3. notes.md    -- 5-10 lines: what the change is, why it violates the property, what specific condition is needed for it to manifest, which tests you ran (before/after results).

Before finishing: verify demo.py passes on a clean checkout state (apply / reverse your patch with `git apply` and `git apply -R`; do NOT use `git stash`, it is shared between worktrees) and fails with the patch; leave the worktree clean, i.e. run `git checkout -- .` at the very end. Reply with a 3-line summary only.
"""
open(os.path.join(out, "prompt.txt"), "w").write(prompt)
print(out + "/prompt.txt")
