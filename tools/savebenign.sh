#!/bin/sh
# tools/savebenign.sh <Cnn> <tag> -- store a sub-agent's BENIGN change under benign/<Cnn>-<tag>/, drop its worktree, and run every check whose
# anchored files the patch touches (the property's own check first). Any exit code other than 0 is a false alarm to be investigated.
p=$1; t=$2
cd "$(dirname "$0")/.."
[ -f /tmp/wtout/${p}${t}/notes.md ] || { echo "savebenign: notes.md missing -- the sub-agent has not finished"; exit 3; }
mkdir -p benign/$p-$t
cp /tmp/wtout/${p}${t}/patch.diff /tmp/wtout/${p}${t}/demo.py /tmp/wtout/${p}${t}/notes.md benign/$p-$t/ 2>/dev/null
git -C /repo worktree remove --force /tmp/wt/${p}${t} 2>/dev/null
ids=$(/venv/bin/python - "$p" benign/$p-$t/patch.diff <<'PY'
import json, re, sys
own, patch = sys.argv[1], sys.argv[2]
files = set(re.findall(r"^\+\+\+ b/(\S+)", open(patch).read(), re.M))
ids = [own]
for l in open("properties.jsonl"):
    d = json.loads(l)
    if d["id"] != own and files & set(d["anchors"]["files"]):
        ids.append(d["id"])
print(" ".join(ids))
PY
)
echo "checks: $ids"
for id in $ids; do ./selftest benign/$p-$t/patch.diff $id 2>&1 | grep -E "clause=|selftest:" | head -4; done | tee benign/$p-$t/checks.txt
