#!/bin/sh
# tools/matrix.sh [tier]  -- run every seeded change and every own mutant against the check of its property; prints "<rc> <patch>" lines
cd "$(dirname "$0")/.."
tier="${1:-quick}"
list=$(mktemp)
for d in seeded/*/; do p="${d%/}"; id=$(basename "$p" | cut -d- -f1); [ -f "$p/patch.diff" ] && echo "$p/patch.diff $id" >> "$list"; done
for f in mutants/*/*.patch; do id=$(basename "$(dirname "$f")"); echo "$f $id" >> "$list"; done
cat "$list" | xargs -P 3 -L 1 sh -c './selftest "$0" "$1" '"$tier"' 2>&1 | tail -1' | sort
rm -f "$list"
