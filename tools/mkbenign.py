#!/venv/bin/python
"""tools/mkbenign.py <Cnn> <tag> -- prepare a BENIGN-change task for a fresh sub-agent: a realistic change to the code a property is
anchored in that keeps the property true (to probe the checks for false alarms). Worktree /tmp/wt/<Cnn><tag>, prompt in /tmp/wtout/<Cnn><tag>/."""
import json, os, subprocess, sys
pid, tag = sys.argv[1], sys.argv[2]
here = os.path.dirname(os.path.abspath(__file__))
prop = next(json.loads(l) for l in open(os.path.join(here, "..", "properties.jsonl")) if json.loads(l)["id"] == pid)
wt, out = "/tmp/wt/%s%s" % (pid, tag), "/tmp/wtout/%s%s" % (pid, tag)
os.makedirs(out, exist_ok=True)
os.makedirs("/tmp/wt", exist_ok=True)
if not os.path.isdir(wt):
    subprocess.check_call(["git", "-C", "/repo", "worktree", "add", "--detach", wt, "HEAD"], stdout=subprocess.DEVNULL, stderr=subprocess.DEVNULL)
used = []
bdir = os.path.join(here, "..", "benign")
if os.path.isdir(bdir):
    for d in sorted(os.listdir(bdir)):
        if d.startswith(pid + "-") and os.path.exists(os.path.join(bdir, d, "notes.md")):
            used.append("  - " + " ".join(open(os.path.join(bdir, d, "notes.md")).read().split())[:420])
already = ("\nAnother maintainer already made the following change for this property; yours must be DIFFERENT in location and kind, and should "
           "preferably change WHICH of several allowed outcomes is produced (a different legal tie-break, a different legal representative, a different "
           "legal order, a different legal schedule) rather than only how the same outcome is computed:\n" + "\n".join(used) + "\n") if used else ""
files = ", ".join(prop["anchors"]["files"])
mech = "; ".join("%s (%s)" % (m["name"], m["where"]) for m in prop["anchors"].get("mechanism", []))
prompt = f"""You are helping to evaluate a verification tool for FALSE ALARMS by playing the role of a maintainer who makes a legitimate change.

Repository: a git worktree of the Python library "artap" (robust design optimization: NSGA-II, swarm algorithms, DoE generators, benchmark functions, surrogate wrappers) at {wt}. Work ONLY inside that directory (and write your deliverables to {out}/). Do not read or touch /repo, /verif or any other worktree. Python interpreter with all dependencies: /venv/bin/python (run things as `cd {wt} && PYTHONPATH={wt} /venv/bin/python ...` so that the worktree's artap is imported). There is no network.

A semantic property of the library that must REMAIN TRUE after your change:

  Title: {prop['title']}
  Statement: {prop['statement']}
  Quantified over: {prop['quantifier']['text']}
  Relevant files: {files}
  Mechanisms: {mech}

Task: make ONE realistic, non-trivial source change (10-60 changed lines, under artap/, not under artap/tests/) to the code this property is about, of the kind maintainers really make, that changes HOW the code works or WHICH of several allowed outcomes it produces, while the property above stays true for every input / schedule / history it quantifies over. Good candidates: restructuring a loop or splitting a function; vectorising with numpy or replacing numpy by plain Python; caching that is provably safe; a different but equally valid tie-break or iteration order where the property leaves the choice open; consuming random numbers in a different order; different internal data structures (dict instead of list, set instead of scan) where semantics are kept; extra logging / timing features; renamed private helpers; reordered independent statements; defensive copies; type conversions that do not change values; an additional optional argument with a default that keeps the behaviour. Prefer changes that alter observable-but-unspecified details (order of equal elements, which duplicate is kept, object identity of returned lists, extra feature keys, number of random draws) over pure renames.
{already}
Do NOT weaken the property, and do not change public signatures in a way existing callers would break. The existing test suite must still pass exactly as before (run at least the test files that touch the changed code: `cd {wt} && PYTHONPATH={wt} /venv/bin/python -m pytest -q -p no:cacheprovider --timeout=900 artap/tests/<relevant files>`; a handful of tests are flaky or fail on the unmodified tree for unrelated reasons (ZDT1 tests, test_surrogate_function, surrogate_smt) -- ignore those; compare before/after).

Deliverables, written to {out}/ :
  1. patch.diff  -- `git diff` of your change (relative to the worktree's HEAD), applying cleanly with `git apply`.
  2. notes.md    -- 8-15 lines: what the change is, which observable-but-unspecified details it alters, and a careful argument, clause by clause, why the property still holds for everything it quantifies over; which tests you ran (before/after).
  3. demo.py     -- a small standalone program exercising the changed code on a few inputs (including corner cases: ties, duplicates, boundary values) that asserts the property's clauses; it must exit 0 both on the unmodified code and with your change.

Before finishing: check demo.py on both states (apply / reverse your patch with `git apply` and `git apply -R`; do NOT use `git stash`, it is shared between worktrees); leave the worktree clean (`git checkout -- .`) at the very end. Reply with a 3-line summary only.
"""
open(os.path.join(out, "prompt.txt"), "w").write(prompt)
print(out + "/prompt.txt")
