#!/venv/bin/python
"""tools/vacuity.py -- which Clause("...") of the trace specifications has never been fired by any seeded change or own mutant (out/clauses.txt)?"""
import os, re, glob
here = os.path.dirname(os.path.abspath(__file__))
fired = set()
missed = []
for line in open(os.path.join(here, "..", "out", "clauses.txt")):
    parts = line.split()
    if len(parts) >= 3 and parts[2] != "1":
        missed.append(line.strip())
    if len(parts) >= 4:
        fired.update(c for c in parts[3].split(",") if c)
allc = {}
for f in glob.glob(os.path.join(here, "..", "spec", "*Trace.tla")):
    for c in re.findall(r'Clause\("([^"]+)"', open(f).read()):
        allc.setdefault(c, set()).add(os.path.basename(f))
never = sorted(c for c in allc if c not in fired)
print("clauses in trace specs:", len(allc), " fired by some known-bad change:", len(allc) - len(never))
for c in never:
    print("  never fired:", c, sorted(allc[c]))
print("not caught (rc != 1):", len(missed))
for m in missed:
    print("  ", m)
