#!/venv/bin/python
"""tools/tracemut_report.py -- merge out/tracemut/*.json (VERIF_TRACEMUT=1 runs) and out/clauses.txt (tools/clauses.sh): which Clause("...") of the
trace specifications has been seen rejecting something (a known-bad change, or a single-field corruption of an accepted trace)?"""
import glob, json, os, re
here = os.path.dirname(os.path.abspath(__file__))
out = os.path.join(here, "..", "out")
fired_bad, fired_mut = set(), set()
if os.path.exists(os.path.join(out, "clauses.txt")):
    for line in open(os.path.join(out, "clauses.txt")):
        parts = line.split()
        if len(parts) >= 4:
            fired_bad.update(c for c in parts[3].split(",") if c)
tot = rej = 0
for f in sorted(glob.glob(os.path.join(out, "tracemut", "*.json"))):
    d = json.load(open(f))
    fired_mut.update(d["rejected_by_clause"])
    tot += d["mutations"]
    rej += d["rejected"]
allc = {}
for f in glob.glob(os.path.join(here, "..", "spec", "*Trace.tla")):
    for c in re.findall(r'Clause\("([^"]+)"', open(f).read()):
        allc.setdefault(c, set()).add(os.path.basename(f)[:-4])
never = sorted(c for c in allc if c not in fired_bad and c not in fired_mut)
print("corruptions: %d, rejected: %d (%.0f%%)" % (tot, rej, 100.0 * rej / max(1, tot)))
print("clauses: %d; seen rejecting a known-bad change: %d; seen rejecting a corruption: %d; either: %d; neither: %d"
      % (len(allc), len(set(allc) & fired_bad), len(set(allc) & fired_mut), len(allc) - len(never), len(never)))
for c in never:
    print("  never seen rejecting:", c, sorted(allc[c]))
