#!/bin/sh
# tools/clauses.sh -- run every seeded change and every own mutant against the check of its property and record WHICH clauses fire
# (out/clauses.txt: "<patch> <property> <rc> <clause,clause,...>"); tools/vacuity.py then lists trace-spec clauses no known-bad change ever fired
cd "$(dirname "$0")/.."
list=$(mktemp)
for d in seeded/*/; do p="${d%/}"; id=$(basename "$p" | cut -d- -f1); [ -f "$p/patch.diff" ] && echo "$p/patch.diff $id" >> "$list"; done
for f in mutants/*/*.patch; do id=$(basename "$(dirname "$f")"); echo "$f $id" >> "$list"; done
mkdir -p out
[ -n "$ONLY" ] && { grep -E " ($ONLY)\$" "$list" > "$list.f"; mv "$list.f" "$list"; }   # ONLY="C03|C07": just these properties
cat "$list" | xargs -P ${CLAUSES_JOBS:-4} -L 1 sh -c 'o=$(./selftest "$0" "$1" quick 2>&1); rc=$(echo "$o" | sed -n "s/.*rc=\([0-9]\)$/\1/p" | tail -1); cl=$(echo "$o" | sed -n "s/.*clause=\([^ ]*\) .*/\1/p" | sort -u | tr "\n" ","); echo "$0 $1 $rc $cl"' > "${CLAUSES_OUT:-out/clauses.txt}"
rm -f "$list"
wc -l "${CLAUSES_OUT:-out/clauses.txt}"
