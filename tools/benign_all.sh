#!/bin/sh
# tools/benign_all.sh -- re-run every stored benign change against the checks recorded in its checks.txt (regression for false alarms);
# prints one line per (patch, check) with the exit code; anything but rc=0 needs a look
cd "$(dirname "$0")/.."
list=$(mktemp)
for d in benign/*/; do
  p="${d%/}"
  [ -f "$p/checks.txt" ] || continue
  for id in $(sed -n 's/.*property=\([A-Z0-9]*\) rc=.*/\1/p' "$p/checks.txt"); do echo "$p/patch.diff $id" >> "$list"; done
done
[ -n "$ONLY" ] && { grep -E " ($ONLY)\$" "$list" > "$list.f"; mv "$list.f" "$list"; }   # ONLY="C03|C07": just these checks
cat "$list" | xargs -P ${JOBS:-4} -L 1 sh -c './selftest "$0" "$1" quick 2>&1 | tail -1' | sort > out/benign_regression.txt
rm -f "$list"
grep -c "rc=0" out/benign_regression.txt; grep -v "rc=0" out/benign_regression.txt
