# one check(...) call per claimed property; NA[...] = reason for properties not claimed
check("C20", "model_checking",
      "Identity.tla: state machine of a population list / offspring list under Offer, Append, Remove, Dedupe; TLC checks "
      "exhaustively (Dim<=2, 4 values per coordinate, <=4 operations) that duplicate rejection keeps exactly one of each "
      "design, list.remove never takes a different design and a reference set() de-duplication meets DedupeOK. TLC then "
      "exports every pair of abstract points (Dim<=3) and simulated behaviours; each is concretised to floats, executed on "
      "the real Individual / GeneticAlgorithm.generate / set() / list.remove, and the observations are validated by TLC "
      "(IdentityTrace) clause by clause. Right level: the property is a finite case split per coordinate "
      "(identical / within tolerance / different) which the model enumerates completely.",
      "trusted: TLC, the float<->(cell,off) projection in harness/drivers/c20.py (re-derived from the concrete floats), "
      "tolerance band 2e-11..9e-10 never generated", "TLC exhaustive model + TLC-generated cases replayed + TLC trace validation",
      "DESIGN.md 5/C20")

check("C01", "model_checking",
      "Dominance.tla models ParetoDominance.compare at the grain of the code (feasibility precedence, one loop iteration per "
      "action, flags, early exit); TLC checks exhaustively (M<=3 quick / 4 thorough, 3 values per objective, markers {0,1} and "
      "{0,+-1,+-2}) that the scan equals the textbook definition, that the epsilon relation agrees and names a loser for identical "
      "vectors, and the three order laws over the whole domain. TLC exports the vector domain; all pairs / sampled triples are "
      "concretised through random strictly increasing maps (negative, tiny, huge values) and run through the real Pareto and "
      "epsilon comparators; random float triples with up to 8 objectives are rank-abstracted; DominanceTrace validates every "
      "verdict and the laws on the observed verdicts. Comparison-only code => the order type of a triple (3 values per "
      "coordinate) is a complete abstraction.",
      "trusted: TLC; rank abstraction (relative gaps >= 1e-5 so that division by a positive epsilon preserves the order); "
      "marker projection to {0,+-1,+-2}", "TLC exhaustive model + TLC-exported domain replayed + TLC trace validation",
      "DESIGN.md 5/C01")
