# one check(...) call per claimed property; NA[...] = reason for properties not claimed
check("C20", "model_checking",
      "Identity.tla: state machine of a population list / offspring list under Offer, Append, Remove, Dedupe; TLC checks "
      "exhaustively (Dim<=2, 4 values per coordinate, <=4 operations) that duplicate rejection keeps exactly one of each "
      "design, list.remove never takes a different design and a reference set() de-duplication meets DedupeOK. TLC then "
      "exports every pair of abstract points (Dim<=3) and simulated behaviours; each is concretised to floats, executed on "
      "the real Individual / GeneticAlgorithm.generate / set() / list.remove, and the observations are validated by TLC "
      "(IdentityTrace) clause by clause. Right level: the property is a finite case split per coordinate "
      "(identical / within tolerance / different) which the model enumerates completely.",
      "trusted: TLC, the float<->(cell,off) projection in harness/drivers/c20.py (re-derived from the concrete floats), "
      "tolerance band 2e-11..9e-10 never generated", "TLC exhaustive model + TLC-generated cases replayed + TLC trace validation",
      "DESIGN.md 5/C20")

check("C01", "model_checking",
      "Dominance.tla models ParetoDominance.compare at the grain of the code (feasibility precedence, one loop iteration per "
      "action, flags, early exit); TLC checks exhaustively (M<=3 quick / 4 thorough, 3 values per objective, markers {0,1} and "
      "{0,+-1,+-2}) that the scan equals the textbook definition, that the epsilon relation agrees and names a loser for identical "
      "vectors, and the three order laws over the whole domain. TLC exports the vector domain; all pairs / sampled triples are "
      "concretised through random strictly increasing maps (negative, tiny, huge values) and run through the real Pareto and "
      "epsilon comparators; random float triples with up to 8 objectives are rank-abstracted; DominanceTrace validates every "
      "verdict and the laws on the observed verdicts. Comparison-only code => the order type of a triple (3 values per "
      "coordinate) is a complete abstraction.",
      "trusted: TLC; rank abstraction (relative gaps >= 1e-5 so that division by a positive epsilon preserves the order); "
      "marker projection to {0,+-1,+-2}", "TLC exhaustive model + TLC-exported domain replayed + TLC trace validation",
      "DESIGN.md 5/C01")

check("C02", "model_checking",
      "NDSort.tla models fast_nondominated_sorting as Pairwise (i<j pass filling counters / dominated lists) + one Peel action per "
      "front; TLC checks for every population as a sequence (i.e. every input order) of size <=3 (thorough 4, also 3 objectives) over "
      "18 vectors that the result satisfies the declarative rank characterisation RankOK, equals the well-founded TrueRank, leaves "
      "nobody unranked, front 1 = non-dominated subset, fronts mutually non-dominated, and that partial ranks are already final. "
      "Populations of the model (all of size <=3, sampled 4-6), random populations up to 40x4 and every sort call inside real "
      "NSGA-II runs are executed with every public Selector flavour and validated by SortTrace against RankOK.",
      "trusted: TLC; rank abstraction of costs; observation through features['front_number']",
      "TLC exhaustive model + model populations replayed + TLC trace validation", "DESIGN.md 5/C02")
check("C03", "model_checking",
      "Selection.tla: rank, then truncate by ANY outcome the relation TruncOK allows, then a tournament by ANY outcome TournOK allows; "
      "TLC checks over all populations of size <=3 (18 vectors; thorough: 4 values / 3 objectives) that every allowed truncation is "
      "elitist, has the right count, that the reference order (front asc, crowding desc) is allowed, exact crowding in [0,M], winner "
      "sound. The real crowding_distance (exact rational projection; tie and zero-range cases by the relaxed clause), "
      "nondominated_truncate (model populations x all k, random populations with duplicated designs and hash-colliding vectors) and "
      "TournamentSelector.select (all ordered pairs forced through random.sample) are validated by SortTrace. Side-car (not deciding): "
      "TLAPS proves rank-first => elitist for populations of any size (proofs/SelectionLaws.tla).",
      "trusted: TLC; affine cost concretisation (gap/range ratios exact); nearest-rational projection of crowding distances",
      "TLC exhaustive relational model + TLC trace validation of real outputs", "DESIGN.md 5/C03")
check("C04", "model_checking",
      "Archive.tla models Archive.add at code grain (scan over a snapshot, delete while scanning, break on dominating/equal member) for "
      "the Pareto comparator and every resolution of the epsilon relation, plus truncate as any outcome keeping the largest features; "
      "TLC checks all histories of <=4 (thorough 5-6) additions over 18 vectors with a truncation anywhere: content = NonDominated(offered) "
      "= incremental NDInsert set, one representative each, mutual non-dominance, covered rejections, result law. ArchiveGen emits every "
      "history of <=3 (thorough 4) additions and simulated longer ones with truncations (2-3 objectives); they and random histories of "
      "30-300 additions (shared design vectors, signed feasibility markers, close-but-distinct values) run on the real Archive with both "
      "comparators; ArchiveTrace validates every event. Side-car (not deciding): TLAPS proves content = NonDominated(offered) inductive "
      "for arbitrary universes and history lengths (proofs/ArchiveLaws.tla).",
      "trusted: TLC; rank abstraction of costs and features; insertion observed by object identity",
      "TLC exhaustive model + TLC-emitted behaviours replayed + TLC trace validation", "DESIGN.md 5/C04")

check("C05", "model_checking",
      "Job.tla models a batch evaluation at the grain of Job.evaluate / evaluate_serial / evaluate_parallel (Take, Begin incl. the skip "
      "rules, ReturnOk, Sync, Restart = repeated evaluation of the same batch); TLC checks for all initial mixes of new/evaluated designs "
      "(<=3 quick / 4 thorough, 1-3 workers, 2-3 rounds) that evaluated designs are never called, every new design exactly once, costs "
      "belong to the stored vector, every interleaving ends in the serial result, plus liveness under weak fairness. JobGen emits each "
      "initial mix; it becomes a real batch (random dimension, 1-3 objectives, min/max, constraints, per-design precision, some with "
      "transient failures) run through Algorithm.evaluate; sweeps over five generators and SciPy / NLopt bridges are recorded as well; "
      "JobTrace validates call/ret/sync/end events, the fixed-point signed-cost and marker law, sweep order and the scalar bridge.",
      "trusted: TLC; hash-based fixed-point objective (costs<->vector pairing decided by equality); observation at the user objective, the "
      "data_store object and object fields after the public call", "TLC exhaustive model + TLC-emitted cases replayed + TLC trace validation",
      "DESIGN.md 5/C05")
check("C06", "model_checking",
      "Job.tla with Faults = {transient, fatal}: ReturnTransient (failed copy, re-sample, retry, RuntimeError after the 5th consecutive "
      "failure) and ReturnFatal; TLC checks attempt bound, failed-list accounting, pairing, raise law, not-marked-on-fatal for <=3 (4) "
      "designs serially and 2 (3) designs x 2 workers. JobGen emits EVERY fault pattern of the serial model for 1..3 designs (which call "
      "fails with which kind; exactly four and exactly five consecutive failures included); each becomes a scripted objective run "
      "serially and with two threads; random scripts on four box classes and whole NSGA-II / eps-MOEA runs with failures are recorded; "
      "JobTrace validates every event (attempt bound, vector-is-current, re-sample inside box, failed list order/content, exception law).",
      "trusted: TLC; scripted objective; exception identity observed at the caller of Algorithm.evaluate / run",
      "TLC exhaustive fault model + every TLC-emitted fault pattern replayed + TLC trace validation", "DESIGN.md 5/C06")

check("C07", "model_checking",
      "Job.tla in parallel mode (workers, pending queue, per-worker pc, exclusive store lock; Take / Begin / ReturnOk / SyncBegin / Commit): "
      "TLC explores ALL interleavings for 3x2, 3x3 (thorough 4x2, 4x3, 5x2) designs x workers and 2x2 (3x2) with transient and fatal faults: "
      "one call per design, final record = serial record, every evaluated design has its final row, lock exclusive; liveness under weak "
      "fairness. JobGen emits every distinct schedule (order of objective returns and store synchronisations); each is forced onto the real "
      "joblib threads by gates at three public hooks per design (the constraints hook at Job.evaluate entry, the user objective, "
      "data_store.sync_individual; a quarter with a real SQLite file read back through an independent connection); free-running stress "
      "runs with 2-8 workers, SQLite, transient failures and injected lock contention (database is locked) are recorded too. "
      "JobTrace validates every event and the end state against the per-design projection of the model.",
      "trusted: TLC; the gate controller (releases only when every busy worker is parked); events totally ordered under one harness lock; "
      "interleavings finer than objective-call / store-sync granularity are only sampled by the stress runs",
      "TLC exhaustive interleaving model + TLC-emitted schedules steered onto real threads + TLC trace validation", "DESIGN.md 5/C07")

check("C14", "model_checking",
      "RobustEval.tla: the evaluator's work lists as a state machine (EvaluateBatch: base evaluation, 2n resp. n neighbours, post-processing "
      "of everything on the list, reset); TLC checks cost length = user objectives (+1), processed exactly once, neighbour count, call budget "
      "for 1-3 parameters x 1-2 objectives x up to 4 (6) batches, and that the named deviation NoReset (the pinned tree's defect) violates "
      "CostLen. Sequences of 1-4 batches through Algorithm.evaluate with both evaluators and whole NSGA-II / eps-MOEA runs with the "
      "worst-case evaluator are recorded; after EVERY batch ALL designs seen so far are validated by RobustTrace: lengths, neighbour "
      "displacement (axis, sign, tolerance), exact sum of |differences| on an integer lattice, feature and signed-cost slots, objective calls "
      "per design unchanged for earlier designs, forward-difference gradient as an exact integer identity. Whole NSGA-II / eps-MOEA / OMOPSO / "
      "SMPSO runs, twin designs, pinned parameters, integer and numpy design vectors included. Side-car (not deciding): TLAPS proves the "
      "cost-length law inductive for any number of batches (proofs/RobustLaws.tla).",
      "trusted: TLC; integer lattice objective (exact sums); call attribution by exact vectors with disjoint neighbourhoods",
      "TLC model with named deviation + TLC trace validation of every batch of real evaluator runs", "DESIGN.md 5/C14")

check("C16", "model_checking",
      "BenchOps.tla is an exact rational transcription of the DTLZ1-4 families on a lattice (distance variables in quarter units where g is "
      "rational; position variables at 0, 1 and Pythagorean angles with rational sine and cosine, dyadic for DTLZ1), of ZDT1's g and of the "
      "bi-objective problem; Benchmarks.tla lets TLC check over the complete lattice (m = 2..4, small k) that this definition satisfies "
      "sum f = (1+g)/2, sum f^2 = (1+g)^2, non-negativity and the corner structure. Sampled lattice points for m = 2..4 with k = 10 "
      "(DTLZ1 also k = 1, 2, 5), Python floats and numpy scalars, are evaluated by the real classes; BenchTrace compares every objective "
      "with the model's exact rational (reduced-fraction equality, no tolerance beyond 2e-11 projection), ZDT1 exactly where the root is "
      "rational and by a square-root-free fixed-point identity elsewhere; a second part evaluates lattice points from four threads "
      "on ONE problem object (re-entrancy, as artap's threaded evaluation does) and, without leaving it to the scheduler, lets a second "
      "evaluation on the same object run to completion at every coordinate read of a first one. Right level for an index-structure property: a wrong variable "
      "index, slice or constant changes an exact rational somewhere on the lattice.",
      "trusted: TLC; nearest-rational projection (denominator <= 80000, 2e-11); libm accuracy at the lattice angles; points between lattice "
      "points are not examined", "TLC-checked exact lattice model + TLC validation of real evaluations on the lattice", "DESIGN.md 5/C16")

check("C17", "model_checking",
      "Results.tla: individuals are recorded one at a time with arbitrary tags; the queries and indicators are definitions in ResultsOps.tla "
      "(population = tag-filtered subsequence, default = largest tag, listings = paired bags, sorted variant, optimum = recorded and extremal "
      "for the direction, EpsAdd = max-min-max, nearest squared distance, integer square root). TLC checks all record lists of <=3 (4) "
      "records over 48 record values for partition / order / default / optimum / sorted-listing laws, and the indicator laws over all 511 "
      "non-empty subsets of the 3x3 grid. TLC-simulated record lists (1..7 records) and random lists up to 40 records are recorded into a "
      "real Problem; every Results query (default, per tag, sorted, unsorted) and both indicators on integer point sets are validated by "
      "ResultsTrace; a quarter of the cases ask the same queries of a read-mode view of the stored run (SqliteDataStore -> ProblemViewDataStore).",
      "trusted: TLC; integer-valued records and point sets; gd compared in 1e-3 units through an integer square root",
      "TLC exhaustive model + TLC-simulated record lists replayed + TLC trace validation", "DESIGN.md 5/C17")

check("C19", "model_checking",
      "Surrogate.tla: one Request(accept) action with the trained flag, evaluation / prediction counters, training set, train count and "
      "objective calls; TLC checks for train_step in {-1,1,2,3} (thorough also 4,5), both initial trained states, the pass-through mode and "
      "all accept/decline sequences up to 7 (10) requests: counters add up, one objective call per true evaluation, data aligned and in "
      "order, retrained exactly at every train_step-th true evaluation, prediction only when trained (action property), monotonicity. "
      "SurrogateGen emits EVERY sequence of length 6 (8); each is replayed through a counting subclass of SurrogateModelPredict, the real "
      "SurrogateModelScikit (1-NN regressor) and SurrogateModelEval with a scripted Problem.predict hook; SurrogateTrace replays the same "
      "Request action and compares every observable after every request; random sequences up to 60 requests / train steps up to 10 with repeated design vectors. Side-car: "
      "Apalache establishes the counter laws as an inductive invariant (spec/apalache/SurrogateInd.tla), i.e. for any number of requests.",
      "trusted: TLC; scripted predict hook; train() counted by wrapping the public method; SurrogateModelSMT not exercised",
      "TLC exhaustive model + every TLC-emitted request sequence replayed + TLC trace validation with the model's own action", "DESIGN.md 5/C19")

check("C12", "exploration",
      "DesignsOps.tla states the defining structures as predicates over integer matrices: Latin(D) (every column of stratum indices is a "
      "permutation of 0..N-1), HaltonOK (point i, parameter j = digit-reversal radical inverse of i in the j-th prime, as exact rationals), "
      "GridOK (full product of k levels), count/box for the random generator. Designs.tla lets TLC check the predicates on reference "
      "constructions (Latin hypercubes from all permutation pairs N<=4(5), radical inverse = summation definition for i<=300(2000) in six "
      "bases, prime table) and on broken variants. The real generators are run for N in 1..200, d in 1..12, nine box classes and seeds; "
      "each output is projected with exact rational arithmetic and judged by TLC (DesignsTrace). TLA+ supplies the precise predicate and "
      "decides every observation; there is no state space to explore, hence level exploration.",
      "trusted: TLC; exact-rational projection of unit coordinates; statistical independence of columns not examined",
      "TLC-evaluated structural predicates (checked on reference constructions) over projected real designs", "DESIGN.md 5/C12")
check("C13", "exploration",
      "DesignsOps.tla: FullFactOK (count, duplicate-free, in range = every combination once), PBOK (two levels, next multiple of four runs, "
      "balanced, pairwise orthogonal columns), BBOK (each +/- corner of each factor pair once, others at mid-level, one centre run), GSDOK "
      "(duplicate-free subsets, pairwise disjoint, complete when all r complementary designs are requested). Designs.tla: TLC checks the "
      "predicates on cyclic PB8 / PB12, textbook BB3, counting full factorials, a GSD split, and rejects corrupted variants. The real "
      "generators and doe functions are run for PB 1..23 (24, 27 must raise), BB 3..8 (10), full factorials (centre / level lists 1..5 x "
      "1..5 factors), GSD over 14 level lists x reductions 2..4 x all complementary counts, also after another design was generated from "
      "the same parameter list; TLC judges every projected design. Exhaustive over the stated configuration ranges; no state space.",
      "trusted: TLC; exact matching of coordinates against supplied levels / bounds / mid-points",
      "TLC-evaluated structural predicates (checked on reference constructions) over projected real designs", "DESIGN.md 5/C13")

check("C10", "model_checking",
      "StoreApi.tla (create / mutate / sync_individual / sync_all over versioned individuals; rows never from the future, only for recorded "
      "individuals, complete after sync_all, no regression) and Store.tla (connections, exclusive lock, Exec / Commit / Crash; returned "
      "synchronisations are durable, last writer wins; the named deviations insert-ignore and batched-commit must violate it) are checked "
      "exhaustively by TLC (3 ids, 2 connections, <=7 (9) operations). TLC-simulated API histories are executed on a real SqliteDataStore "
      "with individuals from a pool of nasty values (+-inf, denormals, -0.0, 17-digit floats, numpy scalars, nested custom data, references "
      "to other individuals, shared design vectors) and read back through ProblemViewDataStore plus a raw duplicate count; finished runs of "
      "NSGA-II, eps-MOEA, OMOPSO, SMPSO, PSOGA, Sweep, ScipyOpt and NLopt are read back and compared with the live individuals; StoreTrace "
      "judges every read (one row per id, nothing lost or invented, last synchronisation wins, data identical, problem definition).",
      "trusted: TLC; the canonical bit-exact fingerprint (the encode/decode fidelity itself is decided by fingerprint equality, not by TLA+); "
      "SQLite itself", "TLC exhaustive store models + TLC-simulated histories replayed on real SQLite + TLC trace validation", "DESIGN.md 5/C10")

check("C11", "fault_enumeration",
      "Store.tla gives every connection its own transaction (Exec buffers, Commit applies atomically and only then returns), an exclusive lock "
      "and a Crash action enabled in every state; TLC checks ReturnedAreDurable / NoFutureRows / LockExclusive over all interleavings of two "
      "connections with a crash anywhere (incl. Spill: pages written before the commit; CrashAtomic), and that the named deviations batched-commit and "
      "journal-off violate it. Fault enumeration on the real code: a dry "
      "run counts the crash points (objective entry / exit, before / after every SQL statement and commit that artap issues, via a proxy "
      "around sqlite3.connect) of seven scenarios (serial batch, the same with 'database is locked' injected inside sync_individual, designs synchronised before their "
      "evaluation, a run monitored through a read-mode view opened by the writer itself, two-thread batch, NSGA-II run, "
      "bulk sync_all larger than SQLite's page cache); one forked child per point dies there with os._exit, plus SIGKILL at random instants; the file is reopened through "
      "ProblemViewDataStore, raw SQL and PRAGMA integrity_check; StoreTrace validates: readable, one row per id, every synchronisation that "
      "had returned is present with its data, no partial row, costs match the row's vector. Quick: <=45 points per scenario.",
      "trusted: TLC; process death = os._exit / SIGKILL (page cache survives, power loss not modelled); crashes inside SQLite's own C code are "
      "reached only by the random SIGKILLs and the bulk-transaction scenario", "TLC crash model + crash-point enumeration on real SQLite + TLC trace validation",
      "DESIGN.md 5/C11")

check("C18", "model_checking",
      "Swarm.tla: one particle coordinate and the leader archive as a state machine (SetVelocity with clamp, Move with both bound reactions - "
      "reverse for OMOPSO / PSOGA, 1/1000 damping for SMPSO as exact rationals, Evaluate, UpdateBest, UpdateLeaders = non-dominated insert + "
      "truncation to N); TLC checks in-box after every move from positions -3..7 with velocities -9..9 (far outside the box [0,4]), clamped "
      "velocity, personal best never replaced by a dominated position (action property), leaders <= N and mutually non-dominated over 2 (3) "
      "generations, and the complete Move / Clamp / Best tables. The Move table is replayed through update_position of the three classes on "
      "shifted / scaled boxes, speed_constriction on 204 integer cases, update_velocity on three box classes, update_particle_best for all 324 "
      "ordered pairs of model vectors, scripted leader generations (ties, duplicates, infeasible members, small swarms) and whole runs with "
      "observers on the public update methods; SwarmTrace judges every event.",
      "trusted: TLC; integer lattice for positions / velocities; rank abstraction of costs",
      "TLC exhaustive model + model tables replayed + TLC trace validation of real swarm runs", "DESIGN.md 5/C18")

check("C09", "model_checking",
      "Run.tla: NSGA-II over generations with populations as bags of cost vectors (FirstGen, Step = evaluate N offspring, merge with the "
      "parents, rank, truncate by ANY rank-respecting choice) and the eps-MOEA acceptance step; TLC checks budget N*G, constant size, "
      "elitism (no survivor dominated by a dropped parent) and single-objective best-cost monotonicity over all offspring cost choices "
      "(N = 2 over 8 (18) vectors, N = 3 single objective, G = 3..6), and PopAcceptOK size preservation. Real NSGA-II, eps-MOEA, OMOPSO and "
      "SMPSO runs (N 2..12, G 1..6, 1-3 objectives, 1-4 parameters, with and without transient failures) are recorded through the "
      "objective call log and Problem.populations(); RunTrace checks budget, tags, sizes, distinctness, the full NSGA-II step relation "
      "(survivors from parents and offspring, rank first, by front peeling), elitism and monotonicity; pop_acceptance is executed on "
      "sampled populations of the model's vectors with every random.choice outcome forced and judged by PopAcceptOK, and every "
      "acceptance step of the real eps-MOEA runs is observed and judged the same way. Compose.tla (constant-level, all pools <= 3 (4)) links "
      "the suite: C02's ranks + any truncation C03 allows => this step relation and elitism.",
      "trusted: TLC; design identity = exact vector; hash-based deterministic objective; rank abstraction over the whole run",
      "TLC exhaustive generation model + TLC trace validation of whole real runs + forced-choice acceptance table", "DESIGN.md 5/C09")

check("C08", "exploration",
      "Variation.tla abstracts coordinates to classes relative to their bounds (Below / AtLb / In / AtUb / Above, NaN / Complex / NonReal) and "
      "models the inductive skeleton of every population algorithm (Generate, Vary = arbitrary real raw value then clip, SwarmMove, Resample "
      "after a failure, Evaluate); TLC checks that every evaluated coordinate is in the box and that the named deviation 'unclipped' (an "
      "operator that forgets to clip, like SimpleMutator) violates it. On the code side the abstract case space operator x parent position "
      "class x parent relation (coincident / 1 ulp / 1e-12 / far) x 9 box classes x probability x distribution index x iteration is sampled "
      "(quick 5000, thorough 120000) with scripted boundary draws for random.random / uniform; 8 generators on mixed boxes with and without "
      "declared precision; every vector handed to the objective in NSGA-II / eps-MOEA / OMOPSO / SMPSO / PSOGA runs; VariationTrace (TLC) "
      "judges class membership, dimension and realness of every event. The box arithmetic itself is floating point and cannot be modelled "
      "in TLA+: this is a contract monitor on top of a small inductive model, hence level exploration.",
      "trusted: TLC; the classification function (tolerance 0 for operators; 1e-12 or half the declared precision plus 4 ulp for generated and "
      "evaluated designs); scripted random draws; boxes up to 1e12",
      "TLC class-abstraction model + TLC validation of class-abstracted operator / generator / run observations", "DESIGN.md 5/C08")

check("C15", "exploration",
      "Contract monitor, the weakest use of the specification in this suite (DESIGN.md section 8): the formulas are transcendental and the box is "
      "continuous, so there is no state space and nothing for TLC to enumerate. BenchTrace.tla states the three clauses of the property in fixed "
      "point (units of 1e-6, tolerance 1e-3): one finite real cost, documented optimum value at the documented coordinates, no observed point "
      "better than the documented optimum for the declared direction. The driver evaluates each of the 23 single-objective classes in every "
      "accepted dimension with Python floats and numpy scalars at the documented optimum and neighbours, centre, corners, random points and the "
      "end points of bounded L-BFGS-B searches (which actually look for something better), and TLC judges every observation. Detects wrong "
      "constants / signs / directions and crashes on plain floats; cannot prove absence of a better point.",
      "trusted: TLC for the inequalities; numerical search (sampling + local optimisation) as the only exploration; libm",
      "TLC-evaluated contract clauses over sampled and locally optimised evaluations (no model)", "DESIGN.md 5/C15")
