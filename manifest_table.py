# one check(...) call per claimed property; NA[...] = reason for properties not claimed
check("C20", "model_checking",
      "Identity.tla: state machine of a population list / offspring list under Offer, Append, Remove, Dedupe; TLC checks "
      "exhaustively (Dim<=2, 4 values per coordinate, <=4 operations) that duplicate rejection keeps exactly one of each "
      "design, list.remove never takes a different design and a reference set() de-duplication meets DedupeOK. TLC then "
      "exports every pair of abstract points (Dim<=3) and simulated behaviours; each is concretised to floats, executed on "
      "the real Individual / GeneticAlgorithm.generate / set() / list.remove, and the observations are validated by TLC "
      "(IdentityTrace) clause by clause. Right level: the property is a finite case split per coordinate "
      "(identical / within tolerance / different) which the model enumerates completely.",
      "trusted: TLC, the float<->(cell,off) projection in harness/drivers/c20.py (re-derived from the concrete floats), "
      "tolerance band 2e-11..9e-10 never generated", "TLC exhaustive model + TLC-generated cases replayed + TLC trace validation",
      "DESIGN.md 5/C20")
